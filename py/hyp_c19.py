"""C19 - configuration front-ends build the documented pipeline, end to end; install / restore histories.

Hypothesis generates (a) INI key sets or one-line configure() arguments plus a message stream, executed by a child
(harness/runner_config.cpp) whose stdout, stderr and log directory are compared with what the keys prescribe, and
(b) histories of install / foreign qInstallMessageHandler / restore operations checked against a handler model.
Case: {"mode": "ini"|"oneline"|"history", ...} (see strategy()).
"""
import gzip, json, os, re, shutil, subprocess, sys, tempfile

sys.path.insert(0, os.path.dirname(os.path.abspath(__file__)))
from hypcommon import STATS, hyp_main

RUNNER = os.environ.get("VERIF_RUNNER_CONFIG")
SCRATCH = os.environ.get("VERIF_SCRATCH") or tempfile.mkdtemp(prefix="verif-c19-", dir="/dev/shm")
TYPES = ["debug", "info", "warning", "critical"]
LETTER = [" ", "I", "W", "E"]
ANSI = re.compile(r"\x1b\[[0-9;]*m")

# ---------------------------------------------------------------------------------------------- oracles for the keys
REGEXPS = {  # regexp_filter menu -> predicate on the raw text
    "error": lambda t: "error" in t,
    "^start": lambda t: t.startswith("start"),
    "[0-9]+x": lambda t: re.search(r"[0-9]+x", t, re.A) is not None,
    "^(?!.*password).*$": lambda t: "password" not in t,
    "end#[0-9]+$": lambda t: re.search(r"end#[0-9]+$", t, re.A) is not None,
    # numbered groups that the expression itself refers to (back-reference, conditional): predicates written by hand
    "(r)\\1": lambda t: "rr" in t,
    "^(start )?error(?(1) end)": lambda t: t.startswith("start error end") or t.startswith("error"),
    "(?i)^error": lambda t: t[:5].lower() == "error",
    "\\bend\\b": lambda t: re.search(r"(?<![A-Za-z0-9_])end(?![A-Za-z0-9_])", t) is not None,
}
PATTERNS = {  # message_pattern menu -> renderer
    "%{type}|%{category}|%{message}": lambda ty, cat, t: "%s|%s|%s" % (TYPES[ty], cat, t),
    "[%{category}] %{message}": lambda ty, cat, t: "[%s] %s" % (cat, t),
    "%{message}": lambda ty, cat, t: t,
    "%{if-warning}W:%{endif}%{if-critical}C:%{endif}%{message} <%{type}>": lambda ty, cat, t: ("W:" if ty == 2 else "C:" if ty == 3 else "") + t + " <" + TYPES[ty] + ">",
}


def glob_match(pat, s):
    # '*' matches any run of characters, everything else literally
    parts = pat.split("*")
    if len(parts) == 1:
        return pat == s
    if not s.startswith(parts[0]):
        return False
    pos = len(parts[0])
    for mid in parts[1:-1]:
        i = s.find(mid, pos)
        if i < 0:
            return False
        pos = i + len(mid)
    return len(s) - pos >= len(parts[-1]) and s.endswith(parts[-1])


def rules_pass(rules, cat, ty):
    verdict = True
    for pat, rty, val in rules:
        if glob_match(pat, cat) and (rty is None or rty == ty):
            verdict = val
    return verdict


def rules_text(rules):
    return ";".join("%s%s=%s" % (p, "" if t is None else "." + TYPES[t], "true" if v else "false") for p, t, v in rules)


def truthy(v, default):
    if v is None:
        return default
    return str(v).lower() in ("true", "1")  # what QVariant::toBool makes of the spellings used here


# ---------------------------------------------------------------------------------------------- child
def run_child_tty(sc, work, tty_out, tty_err, env):
    """like run_child, but stdout and/or stderr are pseudo-terminals (so that colour mode 'auto' switches on)"""
    import pty, select

    sp = os.path.join(work, "scenario.json")
    fds = {}
    kw = {}
    for name, want in (("stdout", tty_out), ("stderr", tty_err)):
        if want:
            m, sl = pty.openpty()
            fds[name] = (m, sl)
            kw[name] = sl
        else:
            kw[name] = subprocess.PIPE
    p = subprocess.Popen([RUNNER, sp], env=env, cwd=work, **kw)
    for name, (m, sl) in fds.items():
        os.close(sl)
    bufs = {"stdout": b"", "stderr": b""}
    readers = {}
    for name in ("stdout", "stderr"):
        readers[fds[name][0] if name in fds else getattr(p, name).fileno()] = name
    open_fds = set(readers)
    import time as _t

    deadline = _t.time() + 120
    while open_fds and _t.time() < deadline:
        r, _, _ = select.select(list(open_fds), [], [], 0.5)
        for fd in r:
            try:
                chunk = os.read(fd, 65536)
            except OSError:  # EIO: the slave side of the pty was closed
                chunk = b""
            if not chunk:
                open_fds.discard(fd)
            else:
                bufs[readers[fd]] += chunk
    try:
        rc = p.wait(timeout=10)
    except subprocess.TimeoutExpired:
        p.kill()
        rc = p.wait()
    for name, (m, sl) in fds.items():
        os.close(m)
    out = bufs["stdout"].decode("utf-8", "replace")
    err = bufs["stderr"].decode("utf-8", "replace")
    if tty_out:
        out = out.replace("\r\n", "\n")
    if tty_err:
        err = err.replace("\r\n", "\n")
    return rc, out, err


def run_child(sc, work, tty_out=False, tty_err=False):
    sp = os.path.join(work, "scenario.json")
    with open(sp, "w") as f:
        json.dump(sc, f)
    env = dict(os.environ)
    env["ASAN_OPTIONS"] = "detect_leaks=0:exitcode=98:handle_abort=1"
    env["UBSAN_OPTIONS"] = "halt_on_error=1:exitcode=98"
    env["TZ"] = "UTC"
    env["LC_ALL"] = "C.UTF-8"
    env["QT_LOGGING_RULES"] = ""
    env.pop("QT_MESSAGE_PATTERN", None)
    if tty_out or tty_err:
        return run_child_tty(sc, work, tty_out, tty_err, env)
    try:
        r = subprocess.run([RUNNER, sp], env=env, stdout=subprocess.PIPE, stderr=subprocess.PIPE, timeout=180, cwd=work)
        return r.returncode, r.stdout.decode("utf-8", "replace"), r.stderr.decode("utf-8", "replace")
    except subprocess.TimeoutExpired:
        STATS.count("child_timeouts_inconclusive")
        return 97, "", "child did not finish within 180 s"


ROT = re.compile(r"^app\.(\d{4}-\d{2}-\d{2})\.(\d+)\.log(\.gz)?$")


def read_dir(d):
    rot = []
    for n in os.listdir(d):
        m = ROT.match(n)
        if m:
            rot.append((m.group(1), int(m.group(2)), n, bool(m.group(3))))
        elif n != "app.log":
            return None, "unexpected file '%s' in the log directory" % n
    rot.sort()
    files = []
    for _, _, n, gz in rot:
        raw = open(os.path.join(d, n), "rb").read()
        if gz:
            try:
                raw = gzip.decompress(raw)
            except Exception as e:
                return None, "%s is not valid gzip: %s" % (n, e)
        files.append((n, raw.decode("utf-8", "replace"), gz))
    active = None
    if os.path.exists(os.path.join(d, "app.log")):
        active = open(os.path.join(d, "app.log"), "rb").read().decode("utf-8", "replace")
    return (files, active), ""


def lines_of(text):
    ls = text.split("\n")
    if ls and ls[-1] == "":
        ls.pop()
    return ls


def check_files(d, expected_stream, old_lines, L, N, startup, compress, rotating, label):
    """expected_stream: list of lines (old + new); returns '' or reason"""
    got, err = read_dir(d)
    if got is None:
        return err
    files, active = got
    if active is None and not files:
        return "%s: no log file was written" % label if expected_stream else ""
    allf = files + ([("app.log", active, False)] if active is not None else [])
    got_lines = []
    for n, text, gz in allf:
        if text and not text.endswith("\n"):
            return "%s: file %s does not end with a newline" % (label, n)
        got_lines += lines_of(text)
    nfiles = len(allf)
    if not rotating:
        if files:
            return "%s: rotated files %s exist although no rotation is configured" % (label, [f[0] for f in files])
        if got_lines != expected_stream:
            return "%s: file content differs: %d lines, expected %d; first difference: %s" % (label, len(got_lines), len(expected_stream), first_diff(got_lines, expected_stream))
        return ""
    if N >= 2 and nfiles > N:
        return "%s: %d log files exist, the file-count limit is %d" % (label, nfiles, N)
    if N == 1 and files:
        return "%s: rotated files exist although the file-count limit is 1" % label
    k = len(got_lines)
    if k > len(expected_stream) or got_lines != expected_stream[len(expected_stream) - k:]:
        return "%s: the log files do not hold a most-recent stretch of the expected lines: %d lines in files, %d expected; first difference: %s" % (
            label, k, len(expected_stream), first_diff(got_lines, expected_stream[max(0, len(expected_stream) - k):]))
    if (N <= 1 or nfiles < N) and k != len(expected_stream):
        return "%s: %d of %d expected lines are missing although the file-count limit (%d) was not reached (%d files)" % (label, len(expected_stream) - k, len(expected_stream), N, nfiles)
    if L > 0 and N != 1:
        for n, text, gz in allf:
            if len(text.encode()) > L and len(lines_of(text)) > 1:
                return "%s: file %s holds %d bytes in %d lines, the size limit is %d" % (label, n, len(text.encode()), len(lines_of(text)), L)
    for n, text, gz in files:
        if gz != compress:
            return "%s: rotated file %s is %scompressed although compression is %s" % (label, n, "" if gz else "not ", "on" if compress else "off")
    wrote = len(expected_stream) > len(old_lines)  # the sink opens (and rotates on startup) lazily, with the first record it receives
    if startup and old_lines and wrote and N != 1 and active is not None:
        al = lines_of(active)
        if al and al[0] in old_lines:
            return "%s: rotate-on-startup is on but the active file still begins with a line of the previous run" % label
    if not startup and old_lines and (L <= 0 or L > 10000) and files:
        return "%s: rotated files exist although neither startup rotation nor a reachable size limit is configured" % label
    return ""


def first_diff(a, b):
    for i, (x, y) in enumerate(zip(a, b)):
        if x != y:
            return "line %d: got %r, expected %r" % (i + 1, x[:100], y[:100])
    return "line %d: %s" % (min(len(a), len(b)) + 1, "got extra %r" % a[len(b)][:100] if len(a) > len(b) else "missing %r" % b[len(a)][:100])


# between the type letter and the category the pretty layout has a thread column once a second thread has logged (the docs show
# "1", the code prints "T1 " and blanks for the first thread): any such label is accepted, the column is not what C19 is about
PRETTY = re.compile(r"^\d\d\.\d\d\.\d{4} \d\d:\d\d:\d\d (.) (?:T?\d+ +| +)?(?:\[([^\]]*)\] )?(.*)$")


def match_pretty(line, ty, cat, text):
    m = PRETTY.match(line)
    if not m:
        return False
    want_cat = None if cat == "default" else cat
    return m.group(1) == LETTER[ty] and m.group(2) == want_cat and m.group(3) == text


# ---------------------------------------------------------------------------------------------- configuration cases
def run_config(case):
    work = tempfile.mkdtemp(prefix="c19-", dir=SCRATCH)
    try:
        d = os.path.join(work, "logs")
        os.makedirs(d)
        old = ["old line %d of the previous run" % i for i in range(case.get("old", 0))]
        msgs = case["messages"]
        if case["mode"] == "ini":
            keys = case["keys"]
            has_path = "path" in keys
            if old and has_path:
                with open(os.path.join(d, "app.log"), "w") as f:
                    f.write("".join(l + "\n" for l in old))
            sc = dict(mode="ini", dir=d, keys={k: (rules_text(v) if k == "filter_rules" else v) for k, v in keys.items()}, messages=msgs, group=case.get("group", "logger"), viaSettings=case.get("viaSettings", False))
            tty = case.get("tty", "")
            rc, out, err = run_child(sc, work, tty in ("out", "both"), tty in ("err", "both"))
            if rc == 97:
                return ""  # time bound missed: inconclusive, never a violation
            if rc == 98:
                return "sanitizer report in the child: " + err[-1500:]
            if rc != 0:
                return "child ended with status %s: %s" % (rc, err[-500:])
            rules = keys.get("filter_rules") or []
            rx = REGEXPS.get(keys.get("regexp_filter")) if keys.get("regexp_filter") else None
            pat = keys.get("message_pattern")
            passing = [m for m in msgs if rules_pass(rules, m["cat"] or "default", m["type"]) and (rx is None or rx(m["text"]))]
            PREFIX = ["\x1b[90m", "\x1b[32m", "\x1b[33m", "\x1b[31m"]
            def rendered_ok(lines, k, label, coloured=()):
                """lines must be each passing message k times in a row, in order; coloured[j] says whether the j-th output bound
                to this stream wraps its line in the documented colour prefix / reset (colour mode 'auto' on a terminal)"""
                if len(lines) != k * len(passing):
                    return "%s carries %d lines, expected %d (%d messages pass the filters, %d output(s) bound to it)%s" % (label, len(lines), k * len(passing), len(passing), k, ("; first lines: %r" % lines[:3]) if lines else "")
                for i, m in enumerate(passing):
                    for j in range(k):
                        l = lines[i * k + j]
                        if j < len(coloured) and coloured[j]:
                            pre, post = PREFIX[m["type"]], "\x1b[0m"
                            if not (l.startswith(pre) and l.endswith(post)):
                                return "%s line %d is %r: on a terminal with colour enabled the line must be wrapped in %r ... %r" % (label, i * k + j + 1, l[:160], pre, post)
                            l = l[len(pre):len(l) - len(post)]
                        cat = m["cat"] or "default"
                        ok = (l == PATTERNS[pat](m["type"], cat, m["text"])) if pat else match_pretty(l, m["type"], cat, m["text"])
                        if not ok:
                            return "%s line %d is %r, expected message %r (%s, category %s) formatted by %s" % (label, i * k + j + 1, l[:160], m["text"], TYPES[m["type"]], cat, pat or "the pretty layout")
                return ""
            k_out = 1 if (truthy(keys.get("stdout"), False) or truthy(keys.get("stdout_color"), False)) else 0
            k_err = (1 if (truthy(keys.get("stderr"), False) or truthy(keys.get("stderr_color"), False)) else 0) + (1 if truthy(keys.get("platform_std_log"), True) else 0)
            col_out = [truthy(keys.get("stdout_color"), False) and tty in ("out", "both")]
            col_err = ([truthy(keys.get("stderr_color"), False) and tty in ("err", "both")] if (truthy(keys.get("stderr"), False) or truthy(keys.get("stderr_color"), False)) else []) + [False]
            why = rendered_ok(lines_of(out), k_out, "stdout", col_out)
            if why:
                return why
            why = rendered_ok(lines_of(err), k_err, "stderr", col_err)
            if why:
                return why
            STATS.cls("terminal_output", bool(tty))
            STATS.cls("coloured_console_line_expected", (k_out and col_out[0]) or any(col_err))
            nontrivial = (k_out + k_err + (1 if has_path else 0)) >= 2 and len(passing) < len(msgs)
            STATS.cls("outputs>=2", (k_out + k_err + (1 if has_path else 0)) >= 2)
            STATS.cls("some_message_filtered_out", len(passing) < len(msgs))
            STATS.cls("file_output", has_path)
            STATS.cls("async", truthy(keys.get("async"), False))
            STATS.cls("mode_ini")
            STATS.cls("messages_from_several_threads", len({m.get("thr", 0) for m in msgs}) > 1)
            STATS.note_case(dict(mode="ini", keys=sorted(keys), n=len(msgs), passing=len(passing), old=len(old)), nontrivial)
            if has_path:
                # the file receives what the console receives: same formatter
                exp = []
                for m in passing:
                    cat = m["cat"] or "default"
                    exp.append(PATTERNS[pat](m["type"], cat, m["text"]) if pat else None)
                L = int(keys.get("max_file_size", 1048576))
                N = int(keys.get("max_file_count", 5))
                startup = truthy(keys.get("rotate_on_startup"), True)
                compress = truthy(keys.get("compress_old_files"), False)
                if pat is None:
                    # pretty layout: take the stderr/stdout rendering when there is one, else recognise line by line
                    got, e2 = read_dir(d)
                    if got is None:
                        return e2
                    files, active = got
                    all_lines = []
                    for n, text, gz in files:
                        all_lines += lines_of(text)
                    all_lines += lines_of(active or "")
                    new_lines = [l for l in all_lines if l not in old]
                    tail = passing[len(passing) - len(new_lines):] if len(new_lines) <= len(passing) else None
                    if tail is None or any(not match_pretty(l, m["type"], m["cat"] or "default", m["text"]) for l, m in zip(new_lines, tail)):
                        return "log file lines are not the pretty rendering of the messages that pass the filters: %r" % new_lines[:3]
                    exp = passing and [None] * (len(passing) - len(new_lines)) + new_lines
                    exp = [("<pretty line %d>" % i) if e is None else e for i, e in enumerate(exp)]
                why = check_files(d, old + exp, old, L, N, startup, compress, True, "log file")
                if why:
                    return why
            else:
                if os.listdir(d):
                    return "files %s were written although no path is configured" % os.listdir(d)
            return ""
        # ---- one-line configure() ----
        a = case["args"]
        if old and a.get("path"):
            with open(os.path.join(d, "app.log"), "w") as f:
                f.write("".join(l + "\n" for l in old))
        rc, out, err = run_child(dict(mode="oneline", dir=d, args=a, messages=msgs), work)
        if rc == 97:
            return ""
        if rc == 98:
            return "sanitizer report in the child: " + err[-1500:]
        if rc != 0:
            return "child ended with status %s: %s" % (rc, err[-500:])
        if out:
            return "one-line configuration wrote to stdout: %r" % out[:200]
        elines = lines_of(err)
        if len(elines) != len(msgs):
            return "stderr carries %d lines for %d messages (one-line configuration)" % (len(elines), len(msgs))
        stripped = [ANSI.sub("", l) for l in elines]
        STATS.cls("message_text_with_terminal_control_sequences", any("\x1b" in m["text"] for m in msgs))
        for l, m in zip(stripped, msgs):
            if not match_pretty_any_width(l, m["type"], m["cat"] or "default", ANSI.sub("", m["text"])):
                return "console line %r is not the pretty rendering of message %r (%s, category %s)" % (l[:160], m["text"], TYPES[m["type"]], m["cat"] or "default")
        STATS.cls("mode_oneline")
        STATS.cls("messages_from_several_threads", len({m.get("thr", 0) for m in msgs}) > 1)
        STATS.cls("file_output", bool(a.get("path")))
        STATS.cls("console_line_with_colour", any("\x1b[" in l for l in elines))
        rotating = a["size"] > 0 or a["startup"] or a["daily"]
        STATS.note_case(dict(mode="oneline", args={k: a[k] for k in sorted(a)}, n=len(msgs), old=len(old)), bool(a.get("path")) and len(msgs) >= 2)
        if a.get("path"):
            return check_files(d, old + stripped, old, a["size"], a["count"], a["startup"], a["compress"], rotating, "log file (= console text minus colour codes)")
        if os.listdir(d):
            return "files %s were written although no path was given" % os.listdir(d)
        return ""
    finally:
        shutil.rmtree(work, ignore_errors=True)


PRETTY_W = re.compile(r"^\d\d\.\d\d\.\d{4} \d\d:\d\d:\d\d (.) (?:T?\d+ +| +)?(?:\[([^\]]*)\] )? *(.*)$")


def match_pretty_any_width(line, ty, cat, text):
    # the one-line configuration aligns the category column (maxCategoryWidth 15): spaces may follow the category field
    m = PRETTY_W.match(line)
    if not m:
        return False
    want_cat = None if cat == "default" else cat
    return m.group(1) == LETTER[ty] and m.group(2) == want_cat and m.group(3) == text.lstrip(" ")


# ---------------------------------------------------------------------------------------------- handler histories
def run_history(case):
    work = tempfile.mkdtemp(prefix="c19h-", dir=SCRATCH)
    try:
        rc, out, err = run_child(dict(mode="history", ops=case["ops"]), work)
        if rc == 97:
            return ""
        if rc == 98:
            return "sanitizer report in the child: " + err[-1500:]
        if rc != 0:
            return "child ended with status %s: %s" % (rc, err[-500:])
        obs = [json.loads(l) for l in out.splitlines() if l.strip()]
        if len(obs) != len(case["ops"]):
            return "harness problem: %d observations for %d operations" % (len(obs), len(case["ops"]))
        cur, active, first, latest = "DEFAULT", None, None, None
        installs = 0
        foreign_on_top_at_restore = False
        ambiguous = False
        for i, (op, o) in enumerate(zip(case["ops"], obs)):
            accept = None
            if op in ("installA", "installB"):
                active = op[-1]
                installs += 1
                if cur != "LOGGER":
                    if first is None:
                        first = cur
                    latest = cur
                cur = "LOGGER"
            elif op in ("F1", "F2", "F3"):
                cur = op
            elif op == "restore":
                if latest is not None:
                    if cur == "LOGGER":
                        accept = {first, latest}
                        if len(accept) > 1:
                            ambiguous = True
                    else:
                        foreign_on_top_at_restore = True
                    first = latest = None
            if accept is not None:
                if o["handler"] not in accept:
                    return "after op #%d (restore) of %s Qt holds handler %s; the handler active before the logger was installed is %s" % (i + 1, case["ops"], o["handler"], " or ".join(sorted(accept)))
                cur = o["handler"]
            elif o["handler"] != cur:
                return "after op #%d (%s) of %s Qt holds handler %s, expected %s" % (i + 1, op, case["ops"], o["handler"], cur)
            want_rx = {"LOGGER": active, "DEFAULT": "-"}.get(cur, cur)
            if o["receiver"] != want_rx:
                return "after op #%d (%s) of %s a probe message was received by %s, expected %s" % (i + 1, op, case["ops"], o["receiver"], want_rx)
        STATS.cls("mode_history")
        STATS.cls("history_two_installs", installs >= 2)
        STATS.cls("history_foreign_on_top_at_restore", foreign_on_top_at_restore)
        STATS.cls("history_ambiguous_restore_accepted_both", ambiguous)
        STATS.cls("history_two_cycles", case["ops"].count("restore") >= 2 and installs >= 2)
        STATS.note_case(dict(mode="history", ops=case["ops"]), installs >= 2 and (foreign_on_top_at_restore or case["ops"].count("restore") >= 2))
        return ""
    finally:
        shutil.rmtree(work, ignore_errors=True)


def run(case):
    if not RUNNER:
        return "harness problem: VERIF_RUNNER_CONFIG not set"
    return run_history(case) if case["mode"] == "history" else run_config(case)


# ---------------------------------------------------------------------------------------------- generators
def strategy():
    from hypothesis import strategies as st

    cats = ["", "app.core", "app.net", "db"]
    words = ["start", "error", "password=1", "42x", "plain text", "end", "Error", "start error end", "%{message}", "a|b", "[x]"]
    msg = st.builds(lambda ty, c, w, i, thr: dict(type=ty, cat=c, text="%s#%d" % (w, i), thr=thr), st.integers(0, 3), st.sampled_from(cats), st.sampled_from(words), st.integers(0, 99), st.sampled_from([0, 0, 0, 0, 1, 2]))
    messages = st.lists(msg, min_size=1, max_size=40)
    rule = st.tuples(st.sampled_from(["*", "app.*", "app.core", "app.net", "db", "default", "*.net", "a*e", "app", "d*"]), st.sampled_from([None, None, 0, 1, 2, 3]), st.booleans())
    boolsp = st.sampled_from(["true", "false", "1", "0", True, False])

    @st.composite
    def ini(draw):
        keys = {}
        def maybe(name, strat, p=0.5):
            if draw(st.floats(0, 1)) < p:
                keys[name] = draw(strat)
        maybe("filter_rules", st.lists(rule, min_size=1, max_size=4).map(lambda l: [list(r) for r in l]), 0.6)
        maybe("regexp_filter", st.sampled_from(sorted(REGEXPS)), 0.35)
        maybe("message_pattern", st.sampled_from(sorted(PATTERNS)), 0.7)
        for k in ("stdout", "stdout_color", "stderr", "stderr_color", "platform_std_log"):
            maybe(k, boolsp, 0.45)
        maybe("path", st.just("app.log"), 0.6)
        if "path" in keys:
            maybe("max_file_size", st.sampled_from([0, 120, 400, 5000, 1048576]), 0.6)
            maybe("max_file_count", st.sampled_from([0, 1, 2, 3, 5, -1]), 0.6)
            maybe("rotate_on_startup", boolsp, 0.5)
            maybe("rotate_daily", boolsp, 0.3)
            maybe("compress_old_files", boolsp, 0.4)
        maybe("async", boolsp, 0.5)
        return dict(mode="ini", keys=keys, messages=draw(messages), old=draw(st.integers(0, 2)), group=draw(st.sampled_from(["logger", "logger", "mylog"])), viaSettings=draw(st.booleans()),
                    tty=draw(st.sampled_from(["", "", "", "out", "err", "both"])))

    @st.composite
    def oneline(draw):
        a = dict(path=draw(st.sampled_from(["", "app.log", "app.log"])), size=draw(st.sampled_from([0, 0, 150, 600, 100000])), count=draw(st.sampled_from([0, 0, 1, 2, 3, 5])),
                 startup=draw(st.booleans()), daily=draw(st.booleans()), compress=draw(st.booleans()))
        if draw(st.booleans()):
            a["async"] = draw(st.booleans())
        msgs = draw(messages)
        if draw(st.integers(0, 2)) == 0:
            # message texts that carry terminal control sequences themselves (progress lines, cursor movement, a colour code of the
            # application's own): "the log file holds the console text minus its terminal colour codes" - the colour codes (ESC [ ... m),
            # not every sequence that starts like one
            esc = ["progress 10%\x1b[2Kprogress 20%", "\x1b[Hhome", "cur\x1b[12;40Hpos", "hide\x1b[?25l", "tail\x1b[", "lone\x1besc", "\x1b[31mred\x1b[0m text",
                   "\x1b[mreset", "up\x1b[1A\x1b[2Kagain", "\x1b[38;5;172morange\x1b[0m", "semi\x1b[1;K", "\x1b]0;title\x07x", "m only [0m", "\x1b[0;1;31mbold\x1b[0mK"]
            for i in sorted(set(draw(st.lists(st.integers(0, len(msgs) - 1), min_size=1, max_size=4)))):
                msgs[i] = dict(msgs[i], text="%s#%d" % (draw(st.sampled_from(esc)), i))
        return dict(mode="oneline", args=a, messages=msgs, old=draw(st.integers(0, 2)))

    history = st.lists(st.sampled_from(["installA", "installA", "installB", "F1", "F2", "F3", "restore", "restore", "probe"]), min_size=1, max_size=14).map(lambda ops: dict(mode="history", ops=ops))
    # a flat one_of over composite strategies favours the cheap branches unevenly: pick the mode explicitly
    return st.integers(0, 9).flatmap(lambda k: ini() if k < 4 else oneline() if k < 6 else history)


if __name__ == "__main__":
    try:
        rc = hyp_main("C19", None if os.environ.get("VERIF_REPLAY") else strategy(), run, 60)
    finally:
        if not os.environ.get("VERIF_SCRATCH"):
            shutil.rmtree(SCRATCH, ignore_errors=True)
    sys.exit(rc)
