"""Driver for the /verif checks (see /verif/DESIGN.md, section 1.2)."""
import fcntl, glob, hashlib, json, os, shutil, subprocess, sys, tempfile, time

VERIF = os.path.dirname(os.path.dirname(os.path.abspath(__file__)))
REPO = os.environ.get("VERIF_REPO", "/repo")
BUILD = os.path.join(VERIF, "build")
EVIDENCE = os.path.join(VERIF, "evidence")
REPLAYS = os.path.join(VERIF, "replays")
REGRESSIONS = os.path.join(VERIF, "regressions")
HARNESS = os.path.join(VERIF, "harness")
NCPU = os.cpu_count() or 4

SAN_FLAGS = "-O1 -g -fno-omit-frame-pointer -fsanitize=address,undefined -fno-sanitize-recover=undefined"
SAN_ENV = {
    "ASAN_OPTIONS": "exitcode=99:handle_abort=1:detect_leaks=0:allocator_may_return_null=1:detect_stack_use_after_return=0",
    "UBSAN_OPTIONS": "exitcode=99:print_stacktrace=1:halt_on_error=1",
    "TZ": "UTC",
    "LC_ALL": "C.UTF-8",
    "LANG": "C.UTF-8",
    "QT_LOGGING_RULES": "",
    "QT_MESSAGE_PATTERN": "",
}


def log(*a):
    print(*a, file=sys.stderr, flush=True)


# ------------------------------------------------------------------------------ hashing / build
def _sha(paths, extra=""):
    h = hashlib.sha256()
    h.update(extra.encode())
    for p in sorted(paths):
        h.update(p.encode())
        try:
            with open(p, "rb") as f:
                h.update(f.read())
        except OSError:
            h.update(b"<missing>")
    return h.hexdigest()[:20]


def repo_files(exts=None):
    out = []
    for root, dirs, files in os.walk(os.path.join(REPO, "src")):
        dirs[:] = [d for d in dirs if d not in ("build", "_build")]
        for f in files:
            if exts is None or os.path.splitext(f)[1] in exts:
                out.append(os.path.join(root, f))
    return out


class Lock:
    def __init__(self, path):
        os.makedirs(os.path.dirname(path), exist_ok=True)
        self.f = open(path, "w")

    def __enter__(self):
        fcntl.flock(self.f, fcntl.LOCK_EX)
        return self

    def __exit__(self, *a):
        fcntl.flock(self.f, fcntl.LOCK_UN)
        self.f.close()


def run_cmd(cmd, **kw):
    r = subprocess.run(cmd, stdout=subprocess.PIPE, stderr=subprocess.STDOUT, text=True, **kw)
    return r.returncode, r.stdout


def touch(p):
    try:
        os.utime(p, None)
    except OSError:
        pass


def prune():
    """remove cache entries not used for 3 hours (never the ones touched in this run)"""
    now = time.time()
    for p in glob.glob(os.path.join(BUILD, "lib-*")) + glob.glob(os.path.join(BUILD, "obj", "*")) + glob.glob(
        os.path.join(BUILD, "bin", "*")
    ):
        if p.endswith(".lock"):
            continue
        try:
            if now - os.path.getmtime(p) > 3 * 3600:
                if os.path.isdir(p):
                    shutil.rmtree(p, ignore_errors=True)
                else:
                    os.unlink(p)
        except OSError:
            pass


def build_lib(kind="san"):
    """library from /repo's working tree through the repository's own CMake (g++, ASan+UBSan)"""
    flags = SAN_FLAGS if kind == "san" else "-O1 -g"
    files = repo_files() + [os.path.join(REPO, "CMakeLists.txt")]
    h = _sha(files, "lib:" + kind + flags)
    d = os.path.join(BUILD, "lib-%s-%s" % (kind, h))
    lib = os.path.join(d, "src", "qtlogger", "libqtlogger.a")
    with Lock(d + ".lock"):
        if not os.path.exists(lib):
            t0 = time.time()
            shutil.rmtree(d, ignore_errors=True)
            os.makedirs(d)
            rc, out = run_cmd(
                [
                    "cmake", "-G", "Ninja", "-S", REPO, "-B", d,
                    "-DQTLOGGER_NO_TESTS=ON", "-DQTLOGGER_NO_EXAMPLES=ON", "-DCMAKE_BUILD_TYPE=None",
                    "-DCMAKE_CXX_COMPILER=g++", "-DCMAKE_CXX_FLAGS=" + flags + " -fPIC",
                ]
            )
            if rc == 0:
                rc, out2 = run_cmd(["cmake", "--build", d, "-j", str(NCPU)])
                out += out2
            if rc != 0 or not os.path.exists(lib):
                log(out[-6000:])
                raise SystemExit("BUILD-ERROR: library does not build from %s" % REPO)
            log("[build] library %s in %.1fs" % (kind, time.time() - t0))
        touch(d)
    return lib, h


def qt_flags():
    rc, out = run_cmd(["pkg-config", "--cflags", "Qt5Core"])
    cflags = out.split()
    rc, out = run_cmd(["pkg-config", "--libs", "Qt5Core"])
    return cflags, out.split()


def build_harness(name, extra_sources=(), link_lib=True, kind="san", defines=()):
    """harness/<name>.cpp (+ extra sources) -> executable, cached by content"""
    flags = SAN_FLAGS if kind == "san" else "-O1 -g"
    cflags, libs = qt_flags()
    common = glob.glob(os.path.join(HARNESS, "common", "*.h"))
    headers = repo_files({".h"})
    lib, libhash = build_lib(kind) if link_lib else (None, "nolib")
    objs = []
    os.makedirs(os.path.join(BUILD, "obj"), exist_ok=True)
    os.makedirs(os.path.join(BUILD, "bin"), exist_ok=True)
    srcs = [os.path.join(HARNESS, name + ".cpp")] + [os.path.join(HARNESS, s) for s in extra_sources]
    base = ["g++", "-std=gnu++17", "-fPIC", "-DQTLOGGER_STATIC", "-DQT_MESSAGELOGCONTEXT", "-DQT_NO_DEBUG_OUTPUT_X"]
    base += ["-D" + d for d in defines]
    base += flags.split() + cflags + ["-I" + os.path.join(REPO, "src"), "-I" + os.path.join(REPO, "src", "qtlogger"), "-I" + HARNESS]
    procs = []
    for s in srcs:
        oh = _sha([s] + common + headers, "obj:" + " ".join(base))
        o = os.path.join(BUILD, "obj", "%s-%s.o" % (os.path.basename(s)[:-4], oh))
        objs.append(o)
        with Lock(o + ".lock"):
            if not os.path.exists(o):
                t0 = time.time()
                rc, out = run_cmd(base + ["-c", s, "-o", o + ".tmp"])
                if rc != 0:
                    log(out[-8000:])
                    raise SystemExit("BUILD-ERROR: harness %s does not compile against %s" % (s, REPO))
                os.rename(o + ".tmp", o)
                log("[build] %s in %.1fs" % (os.path.basename(s), time.time() - t0))
            touch(o)
    eh = _sha(objs, "exe:" + libhash + kind)
    exe = os.path.join(BUILD, "bin", "%s-%s" % (name, eh))
    with Lock(exe + ".lock"):
        if not os.path.exists(exe):
            cmd = ["g++"] + flags.split() + objs + ([lib] if lib else []) + libs + ["-lrapidcheck", "-lz", "-ldl", "-lpthread", "-o", exe + ".tmp"]
            rc, out = run_cmd(cmd)
            if rc != 0:
                log(out[-8000:])
                raise SystemExit("BUILD-ERROR: harness %s does not link" % name)
            os.rename(exe + ".tmp", exe)
        touch(exe)
    return exe


# ------------------------------------------------------------------------------ known findings
def known_findings(prop):
    p = os.path.join(VERIF, "known_findings.json")
    if not os.path.exists(p):
        return []
    with open(p) as f:
        data = json.load(f)
    return [e for e in data.get("findings", []) if e.get("property") == prop]


# ------------------------------------------------------------------------------ evidence
def write_evidence(prop, tier, seed, level, coverage, assumptions, wall, violations):
    evdir = EVIDENCE
    if os.path.abspath(REPO) != "/repo":
        # sensitivity experiments on scratch copies (VERIF_REPO) must not overwrite the evidence of the real tree
        evdir = os.path.join("/dev/shm", "verif-evidence-scratch")
    os.makedirs(evdir, exist_ok=True)
    ev = {
        "property_id": prop,
        "tier": tier,
        "seed": int(seed),
        "level": level,
        "coverage": coverage,
        "assumptions": assumptions,
        "wall_s": round(wall, 2),
        "violations": int(violations),
    }
    tmp = os.path.join(evdir, prop + ".json.tmp%d" % os.getpid())
    with open(tmp, "w") as f:
        json.dump(ev, f, indent=1, ensure_ascii=True)
    os.replace(tmp, os.path.join(evdir, prop + ".json"))


def scratch_dir(tag):
    base = "/dev/shm" if os.path.isdir("/dev/shm") and os.access("/dev/shm", os.W_OK) else tempfile.gettempdir()
    return tempfile.mkdtemp(prefix="verif-%s-" % tag, dir=base)


# ------------------------------------------------------------------------------ rapidcheck engine
def run_rc_shards(exe, prop, seed, cases, shards, max_size, extra_env, timeout, work):
    """run `shards` harness processes in parallel; returns list of (rc, stats|None, failcase path, log path)"""
    procs = []
    for i in range(shards):
        s = seed if shards == 1 else seed * 100 + i
        env = dict(os.environ)
        env.update(SAN_ENV)
        env.update(extra_env or {})
        env["VERIF_PROP"] = prop
        env["VERIF_STATS"] = os.path.join(work, "stats-%d.json" % i)
        env["VERIF_FAILCASE"] = os.path.join(work, "fail-%d.json" % i)
        env["VERIF_SCRATCH"] = os.path.join(work, "scratch-%d" % i)
        os.makedirs(env["VERIF_SCRATCH"], exist_ok=True)
        env["RC_PARAMS"] = "seed=%d max_success=%d max_size=%d noshrink=0" % (s + 1, cases, max_size)
        env["VERIF_HSEED"] = str(s + 1)
        env["VERIF_CASES"] = str(cases)
        env["VERIF_SHARD"] = str(i)
        env["VERIF_DEADLINE_S"] = str(max(30, int(timeout) - 90))
        if os.environ.get("VERIF_TIER") == "thorough":
            # long runs: ASan records the allocation stack of every block in a depot that only grows (rapidcheck's deep, varied call
            # stacks make it grow by ~30 MB/s); two frames per allocation keep 16 shards within memory
            env["ASAN_OPTIONS"] = env["ASAN_OPTIONS"] + ":malloc_context_size=2"
        env["VERIF_REPO"] = REPO
        env.pop("VERIF_REPLAY", None)
        lp = os.path.join(work, "log-%d.txt" % i)
        lf = open(lp, "w")
        p = subprocess.Popen(exe if isinstance(exe, list) else [exe], env=env, stdout=lf, stderr=subprocess.STDOUT, cwd=env["VERIF_SCRATCH"])
        procs.append((p, env, lp, lf, s))
    res = []
    deadline = time.time() + timeout
    for p, env, lp, lf, s in procs:
        try:
            rc = p.wait(timeout=max(1, deadline - time.time()))
        except subprocess.TimeoutExpired:
            p.kill()
            p.wait()
            rc = -9
        lf.close()
        st = None
        try:
            with open(env["VERIF_STATS"]) as f:
                st = json.load(f)
        except Exception:
            pass
        res.append(dict(rc=rc, stats=st, fail=env["VERIF_FAILCASE"], log=lp, seed=s))
    return res


def replay_rc(exe, prop, path, extra_env=None, timeout=600):
    env = dict(os.environ)
    env.update(SAN_ENV)
    env.update(extra_env or {})
    work = scratch_dir(prop + "-replay")
    try:
        env["VERIF_PROP"] = prop
        env["VERIF_REPLAY"] = path
        env["VERIF_STATS"] = os.path.join(work, "stats.json")
        env["VERIF_FAILCASE"] = os.path.join(work, "fail.json")
        env["VERIF_SCRATCH"] = os.path.join(work, "scratch")
        env["VERIF_REPO"] = REPO
        os.makedirs(env["VERIF_SCRATCH"])
        try:
            r = subprocess.run(exe if isinstance(exe, list) else [exe], env=env, stdout=subprocess.PIPE, stderr=subprocess.STDOUT, text=True, timeout=timeout, cwd=env["VERIF_SCRATCH"])
            return r.returncode, r.stdout
        except subprocess.TimeoutExpired as e:
            return -9, (e.stdout or "") if isinstance(e.stdout, str) else ""
    finally:
        shutil.rmtree(work, ignore_errors=True)


def merge_stats(results):
    cov = dict(evaluations=0, classes={}, counters={}, samples=[])
    hashes = set()
    for r in results:
        st = r["stats"]
        if not st:
            continue
        cov["evaluations"] += int(st.get("evaluations", 0))
        for k, v in st.get("classes", {}).items():
            cov["classes"][k] = cov["classes"].get(k, 0) + int(v)
        for k, v in st.get("counters", {}).items():
            cov["counters"][k] = cov["counters"].get(k, 0) + int(v)
        hashes.update(st.get("nontrivial_hashes", []))
        for s in st.get("samples", []):
            if len(cov["samples"]) < 4:
                cov["samples"].append(s)
    cov["distinct_nontrivial"] = len(hashes)
    return cov


def save_replay(prop, tier, seed, src, tag=""):
    os.makedirs(REPLAYS, exist_ok=True)
    if os.path.abspath(REPO) != "/repo":  # sensitivity runs on scratch copies may run in parallel: keep their replay files apart
        tag += "-scratch" + hashlib.sha1(REPO.encode()).hexdigest()[:6]
    dst = os.path.join(REPLAYS, "%s-%s-seed%s%s.json" % (prop, tier, seed, tag))
    shutil.copyfile(src, dst)
    return dst


def rc_check(prop, tier, spec, replay=None):
    """generic flow of a rapidcheck-backed check"""
    t0 = time.time()
    seed = int(os.environ.get("VERIF_SEED", "1") or 1)
    extra_env = dict(spec.get("env", {}))
    if spec.get("hyp"):
        # Hypothesis check: python3-vt script (+ runner executables built from the tree, handed over through the environment)
        exe = ["python3-vt", os.path.join(VERIF, "py", spec["hyp"])]
        for var, b in spec.get("runners", {}).items():
            extra_env[var] = do_build(b)
    else:
        exe = build_harness(spec["harness"], spec.get("extra_sources", ()), defines=spec.get("defines", ()))
    findings = known_findings(prop)
    excl = [e["exclude"] for e in findings if e.get("status") == "known" and e.get("exclude")]
    if excl:
        extra_env["VERIF_EXCLUDE"] = ",".join(excl)

    if replay and spec.get("fuzz_extra") and not replay.endswith(".json"):
        import vfuzz

        t = spec["fuzz_extra"]["target"]
        status, secs, out = vfuzz.run_unit(vfuzz.build_target(t), replay, 300)
        print("replay on fuzz target %s: %s" % (t, status))
        if status != "ok":
            sys.stdout.write(out[-3000:])
            print("VIOLATION property=%s replay=%s" % (prop, os.path.abspath(replay)))
            return 1
        print("replay passed: %s" % replay)
        return 0
    if replay:
        rc, out = replay_rc(exe, prop, replay, extra_env)
        sys.stdout.write(out)
        if rc == 0:
            print("replay passed: %s" % replay)
            return 0
        if rc not in (1, 99):
            print("CHECK-ERROR property=%s: replay run exited with %s" % (prop, rc))
            return 2
        print("VIOLATION property=%s replay=%s" % (prop, os.path.abspath(replay)))
        return 1

    violations = []
    known_lines = []
    # 1. regression inputs and reproductions of known findings: the seconds-long replay tier
    regs = sorted(glob.glob(os.path.join(REGRESSIONS, prop, "*.json")))
    known_repro = {os.path.abspath(os.path.join(VERIF, e["reproduction"])): e for e in findings if e.get("status") == "known" and e.get("reproduction")}
    nreg = 0
    for rfile in regs:
        nreg += 1
        e = known_repro.get(os.path.abspath(rfile))
        attempts = int(e.get("attempts", 1)) if e is not None else 1
        rc, out = 0, ""
        for _ in range(attempts):  # a known finding may be schedule-dependent: try until it shows
            rc, out = replay_rc(exe, prop, rfile, {k: v for k, v in extra_env.items() if k != "VERIF_EXCLUDE"})
            if rc != 0:
                break
        if rc == 0:
            if e is not None and attempts > 1:
                known_lines.append("KNOWN-FINDING: property=%s %s (schedule-dependent: did not show in %d attempts of this run)" % (prop, e["what"], attempts))
            continue
        if e is not None and rc in (1, 99):
            known_lines.append("KNOWN-FINDING: property=%s %s" % (prop, e["what"]))
        else:
            log(out[-3000:])
            violations.append((rfile, "regression input fails (rc=%s)" % rc))

    # 2. generated search
    tspec = spec[tier]
    work = scratch_dir(prop)
    try:
        results = run_rc_shards(exe, prop, seed, tspec["cases"], tspec.get("shards", 1), tspec.get("max_size", 100), extra_env, tspec.get("timeout", 3600), work)
        cov = merge_stats(results)
        broken = None
        for r in results:
            if r["rc"] == 0:
                continue
            if r["rc"] in (1, 99) and os.path.exists(r["fail"]):
                dst = save_replay(prop, tier, r["seed"], r["fail"])
                why = "falsified" if r["rc"] == 1 else "sanitizer report / abort"
                # schedule-dependent checks confirm by replaying
                if spec.get("confirm_replays"):
                    fails = 0
                    for _ in range(spec["confirm_replays"]):
                        rc2, _o = replay_rc(exe, prop, dst, extra_env)
                        fails += rc2 != 0
                    if fails == 0 and os.path.exists(r["fail"] + ".first"):
                        # the shrunk case fails too rarely: fall back to the case as it was generated
                        dst1 = save_replay(prop, tier, r["seed"], r["fail"] + ".first", tag="-asgenerated")
                        for _ in range(spec["confirm_replays"]):
                            rc2, _o = replay_rc(exe, prop, dst1, extra_env)
                            fails += rc2 != 0
                        if fails:
                            dst = dst1
                    if fails == 0:
                        cov.setdefault("unconfirmed", []).append(dst)
                        log("[%s] failure did not reproduce in %d replays: %s (recorded as inconclusive)" % (prop, spec["confirm_replays"], dst))
                        continue
                try:
                    with open(dst) as f:
                        why += ": " + json.load(f).get("why", "")[:600]
                except Exception:
                    pass
                with open(r["log"]) as f:
                    tail = f.read()[-2500:]
                log(tail)
                violations.append((dst, why))
            else:
                with open(r["log"]) as f:
                    tail = f.read()[-4000:]
                broken = "harness exited with %s (seed %s)\n%s" % (r["rc"], r["seed"], tail)
        if broken and not violations:
            log(broken)
            print("CHECK-ERROR property=%s: %s" % (prop, broken.splitlines()[0]))
            return 2
    finally:
        shutil.rmtree(work, ignore_errors=True)

    if spec.get("fuzz_extra") and not replay:
        import vfuzz

        fv, fstats = vfuzz.extra_campaign(prop, tier, spec, seed)
        violations += fv
        if fstats:
            cov["fuzz_differential"] = fstats
    cov["rule"] = spec["rule"]
    cov["regression_inputs_replayed"] = nreg
    cov["shards"] = tspec.get("shards", 1)
    cov["cases_requested_per_shard"] = tspec["cases"]
    if excl:
        cov["excluded_known_classes"] = excl
    if spec.get("exhaustive_note"):
        cov["exhaustive_note"] = spec["exhaustive_note"]
    # generator-collapse warnings
    for k, floor in spec.get("floors", {}).items():
        got = cov["classes"].get(k, 0)
        denom = cov["counters"].get("scenarios", cov["evaluations"])
        if denom and got < floor * denom:
            msg = "WARNING generator-collapse %s: class %s seen in %d of %d cases (floor %.3f)" % (prop, k, got, denom, floor)
            log(msg)
            cov.setdefault("warnings", []).append(msg)
    if not cov["samples"]:
        cov["samples"] = ["(no case completed)"]
    write_evidence(prop, tier, seed, spec.get("level", "exploration"), cov, spec.get("assumptions", []), time.time() - t0, len(violations))
    for l in known_lines:
        print(l)
    log("[%s %s] evaluations=%d distinct_nontrivial=%d wall=%.1fs" % (prop, tier, cov["evaluations"], cov["distinct_nontrivial"], time.time() - t0))
    if violations:
        for path, why in violations:
            log("[%s] %s" % (prop, why))
            print("VIOLATION property=%s replay=%s" % (prop, os.path.abspath(path)))
        return 1
    return 0


# ------------------------------------------------------------------------------ property table
from vprops import PROPS  # noqa: E402


def setup():
    """build everything every registered check needs, for the current tree"""
    t0 = time.time()
    prune()
    build_lib("san")
    import concurrent.futures as cf

    jobs = []
    seen = set()
    for pid, spec in PROPS.items():
        for b in spec.get("builds", []):
            key = json.dumps(b, sort_keys=True, default=lambda o: "fn@%x" % id(o))
            if key not in seen:
                seen.add(key)
                jobs.append(b)
    with cf.ThreadPoolExecutor(max_workers=NCPU) as ex:
        futs = [ex.submit(do_build, b) for b in jobs]
        for f in futs:
            f.result()
    log("[setup] done in %.1fs" % (time.time() - t0))
    return 0


def do_build(b):
    kind = b.get("kind", "rc")
    if kind == "rc":
        return build_harness(b["harness"], b.get("extra_sources", ()), defines=b.get("defines", ()))
    if kind == "fn":
        return b["fn"]()
    raise SystemExit("unknown build kind %r" % kind)


def main(argv):
    if argv and argv[0] == "--setup":
        return setup()
    if len(argv) == 2 and argv[0] == "--which":  # path of the (freshly built) harness executable, for triage
        spec = PROPS[argv[1]]
        print(build_harness(spec["harness"], spec.get("extra_sources", ()), defines=spec.get("defines", ())))
        return 0
    if len(argv) < 2 or argv[0] not in PROPS or argv[1] not in ("quick", "thorough"):
        print(__doc__)
        print("usage: check <ID> <quick|thorough> [--replay FILE] | check --setup\nproperties: " + " ".join(sorted(PROPS)))
        return 2
    prop, tier = argv[0], argv[1]
    replay = None
    if "--replay" in argv:
        replay = os.path.abspath(argv[argv.index("--replay") + 1])
    os.environ["VERIF_TIER"] = tier
    spec = PROPS[prop]
    fn = spec.get("run")
    try:
        if fn:
            return fn(prop, tier, spec, replay)
        return rc_check(prop, tier, spec, replay)
    except SystemExit as e:
        if isinstance(e.code, str):
            print("CHECK-ERROR property=%s: %s" % (prop, e.code))
            return 2
        raise
