"""C11 - a fatal message and everything before it reach the log file.

Hypothesis generates scenarios; each is executed by a child process (harness/runner_fatal.cpp, built from the tree
under test) that is expected to die by SIGABRT. Oracle on what the child left on disk: reading the rotated files in
(date, index) order (gunzipped) and then the active file, every preceding message appears exactly once as a line
suffix, per producing thread in program order, and the fatal message appears exactly once after all of them.
Case: see runner_fatal.cpp (scenario without "dir").
"""
import gzip, json, os, re, shutil, signal, subprocess, sys, tempfile

sys.path.insert(0, os.path.dirname(os.path.abspath(__file__)))
from hypcommon import STATS, hyp_main

RUNNER = os.environ.get("VERIF_RUNNER_FATAL")
SCRATCH = os.environ.get("VERIF_SCRATCH") or tempfile.mkdtemp(prefix="verif-c11-", dir="/dev/shm")
BUF = 16384  # QFile's write buffer


def body(tag, size):
    b = (tag + ":").encode("latin-1")
    al = b"abcdefghijklmnopqrstuvwxyz0123456789"
    x = 2166136261
    for c in tag.encode("latin-1"):
        x = ((x ^ c) * 16777619) & 0xFFFFFFFF
    out = bytearray(b)
    while len(out) < size:
        x = (x * 1664525 + 1013904223) & 0xFFFFFFFF
        out.append(al[(x >> 16) % 36])
    out += b";end"
    return bytes(out)


ROT = re.compile(r"^app\.(\d{4}-\d{2}-\d{2})\.(\d+)\.log(\.gz)?$")


def read_log_dir(d):
    """rotated files in (date, index) order, then the active file; returns (bytes, notes)"""
    rot = []
    notes = []
    for n in os.listdir(d):
        m = ROT.match(n)
        if m:
            rot.append((m.group(1), int(m.group(2)), n, bool(m.group(3))))
    rot.sort()
    data = b""
    for _, _, n, gz in rot:
        with open(os.path.join(d, n), "rb") as f:
            raw = f.read()
        if gz:
            try:
                raw = gzip.decompress(raw)
            except Exception as e:
                notes.append("%s: invalid gzip (%s)" % (n, e))
                raw = b""
        data += raw
    p = os.path.join(d, "app.log")
    if os.path.exists(p):
        with open(p, "rb") as f:
            data += f.read()
    return data, notes, len(rot)


def run(case):
    if not RUNNER:
        return "harness problem: VERIF_RUNNER_FATAL not set"
    work = tempfile.mkdtemp(prefix="c11-", dir=SCRATCH)
    try:
        d = os.path.join(work, "logs")
        os.makedirs(d)
        sc = dict(case)
        sc["dir"] = d
        if case.get("old"):
            with open(os.path.join(d, "app.log"), "wb") as f:
                for i in range(case["old"]):
                    f.write(b"info|old%d:x;end\n" % i)
        sp = os.path.join(work, "scenario.json")
        with open(sp, "w") as f:
            json.dump(sc, f)
        env = dict(os.environ)
        env["ASAN_OPTIONS"] = "handle_abort=0:detect_leaks=0:exitcode=98"
        env["UBSAN_OPTIONS"] = "halt_on_error=1:exitcode=98"
        env["TZ"] = "UTC"
        env["LC_ALL"] = "C.UTF-8"
        r = None
        for attempt in range(2):  # a child that is merely slow on a loaded machine is not a hang: it must miss the bound twice
            try:
                if case.get("stderrFull"):
                    # the console is not writable (a daemon whose stderr points to a full device): sinks in front of the file sink fail to write and to flush
                    with open("/dev/full", "w") as full:
                        r = subprocess.run([RUNNER, sp], env=env, stdout=subprocess.DEVNULL, stderr=full, timeout=180, cwd=work)
                    r.stderr = b""
                else:
                    r = subprocess.run([RUNNER, sp], env=env, stdout=subprocess.DEVNULL, stderr=subprocess.PIPE, timeout=180, cwd=work)
                break
            except subprocess.TimeoutExpired:
                STATS.count("child_timeouts")
                for f in os.listdir(d):
                    os.unlink(os.path.join(d, f))
                if case.get("old"):
                    with open(os.path.join(d, "app.log"), "wb") as f:
                        for i in range(case["old"]):
                            f.write(b"info|old%d:x;end\n" % i)
        if r is None:
            return "the fatal message did not terminate the process within 180 s (twice): the process hangs instead of aborting"
        if r.returncode == 98:
            return "sanitizer report in the child: " + r.stderr.decode(errors="replace")[-1500:]
        if r.returncode != -signal.SIGABRT:
            return "child did not die by SIGABRT on the fatal message (exit status %s): %s" % (r.returncode, r.stderr.decode(errors="replace")[-600:])
        data, notes, nrot = read_log_dir(d)
        if notes:
            return "; ".join(notes)
        lines = data.split(b"\n")
        pos = {}
        for i, l in enumerate(lines):
            m = re.search(rb"(m\d+|FATAL|busy\d+-\d+|slow|old\d+):[a-z0-9]*;end$", l)
            if not m:
                if l.strip() == b"":
                    continue
                return "the log holds a line that is no whole record: %r" % l[:120]
            pos.setdefault(m.group(0), []).append(i)
        # classes
        pre = case["pre"]
        sizes = [s for _, s in pre]
        tail = 0
        for s in reversed(sizes):
            if s + 40 >= BUF:
                break
            tail += s
        STATS.cls("preceding_messages>=1", len(pre) >= 1)
        STATS.cls("unflushed_tail_nonempty", len(pre) >= 1 and (not sizes or sizes[-1] + 40 < BUF))
        STATS.cls("message_at_or_above_buffer_size", any(s + 40 >= BUF for s in sizes))
        STATS.cls("fatal_from_worker_thread", case["fatalThread"] != 0)
        STATS.cls("rotating_sink", case["sink"] != "plain")
        STATS.cls("rotated_files_present", nrot > 0)
        STATS.cls("contention_at_fatal", bool(case.get("busy") or case.get("slow")))
        STATS.cls("style_" + case["style"])
        STATS.cls("console_not_writable", bool(case.get("stderrFull")))
        STATS.cls("sink_reporting_a_failed_flush_in_front_of_the_file_sink", bool(case.get("troubled")))
        nontrivial = len(pre) >= 1
        STATS.note_case({k: case[k] for k in ("style", "sink", "L", "compress", "threads", "fatalThread", "fatalVia", "busy", "slow", "siblings", "fatalSize", "app")} | {"old": case.get("old", 0), "netFile": bool(case.get("netFile")), "stderrFull": bool(case.get("stderrFull")), "installFirst": bool(case.get("installFirst")), "extraFile": bool(case.get("extraFile")), "troubled": case.get("troubled", "")} | {"npre": len(pre), "sizes": sorted(set(sizes))[:6]}, nontrivial)
        # oracle
        last_pre = -1
        per_thread_last = {}
        for idx, (t, size) in enumerate(pre):
            want = body("m%d" % idx, size)
            got = pos.get(want, [])
            if len(got) != 1:
                return "preceding message m%d (thread %d, %d bytes) appears %d times in the files after the process died (expected exactly once); %d of %d preceding messages present, fatal line present: %s" % (
                    idx, t, size, len(got), sum(1 for j, (_, s2) in enumerate(pre) if len(pos.get(body("m%d" % j, s2), [])) == 1), len(pre), bool(pos.get(body("FATAL", case["fatalSize"]))))
            if got[0] <= per_thread_last.get(t, -1):
                return "messages of thread %d are out of order in the file (m%d)" % (t, idx)
            per_thread_last[t] = got[0]
            last_pre = max(last_pre, got[0])
        fl = pos.get(body("FATAL", case["fatalSize"]), [])
        if len(fl) != 1:
            return "the fatal message appears %d times in the files after the process died (expected exactly once); all %d preceding messages present" % (len(fl), len(pre))
        if fl[0] < last_pre:
            return "the fatal message precedes a message that was logged before it"
        if case.get("netFile") and case["style"] == "nested":
            # the per-category file: every preceding message of category 'net' (index % 5 == 1), once, per thread in order
            np = os.path.join(work, "net.log")
            ndata = open(np, "rb").read() if os.path.exists(np) else b""
            npos = {}
            for i, l in enumerate(ndata.split(b"\n")):
                m = re.search(rb"(m\d+):[a-z0-9]*;end$", l)
                if m:
                    npos.setdefault(m.group(0), []).append(i)
                elif l.strip():
                    return "net.log holds a line that is no whole record: %r" % l[:120]
            lastn = {}
            nnet = 0
            for idx, (t, size) in enumerate(pre):
                if idx % 5 != 1:
                    continue
                nnet += 1
                got = npos.get(body("m%d" % idx, size), [])
                if len(got) != 1:
                    return "message m%d of category 'net' appears %d times in the per-category log file net.log after the process died (expected once; %d such messages were logged before the fatal one, the file holds %d lines)" % (
                        idx, len(got), sum(1 for j in range(len(pre)) if j % 5 == 1), len(npos))
                if got[0] <= lastn.get(t, -1):
                    return "net.log: messages of thread %d out of order" % t
                lastn[t] = got[0]
            STATS.cls("per_category_file_not_reached_by_the_fatal_message", nnet > 0)
        if case.get("extraFile"):
            # the file sink added after the configuration proper: every preceding message and the fatal one, once, per thread in order
            xp = os.path.join(work, "extra.log")
            xdata = open(xp, "rb").read() if os.path.exists(xp) else b""
            xpos = {}
            for i, l in enumerate(xdata.split(b"\n")):
                m = re.search(rb"(m\d+|FATAL|busy\d+-\d+|slow):[a-z0-9]*;end$", l)
                if m:
                    xpos.setdefault(m.group(0), []).append(i)
                elif l.strip():
                    return "extra.log holds a line that is no whole record: %r" % l[:120]
            lastx = {}
            for idx, (t, size) in enumerate(pre):
                got = xpos.get(body("m%d" % idx, size), [])
                if len(got) != 1:
                    return "message m%d appears %d times in extra.log (a file sink added with the fluent API after the configuration was complete) after the process died, expected once; the file holds %d lines, fatal line present: %s" % (
                        idx, len(got), len(xpos), bool(xpos.get(body("FATAL", case["fatalSize"]))))
                if got[0] <= lastx.get(t, -1):
                    return "extra.log: messages of thread %d out of order" % t
                lastx[t] = got[0]
            if len(xpos.get(body("FATAL", case["fatalSize"]), [])) != 1:
                return "the fatal message appears %d times in extra.log (a file sink added with the fluent API after the configuration was complete), expected once; all %d preceding messages present" % (len(xpos.get(body("FATAL", case["fatalSize"]), [])), len(pre))
            STATS.cls("file_sink_added_after_the_configuration", True)
        STATS.cls("handler_installed_before_the_pipeline_was_filled", bool(case.get("installFirst")) and case["style"] in ("fluent", "nested"))
        return ""
    finally:
        shutil.rmtree(work, ignore_errors=True)


def strategy():
    from hypothesis import strategies as st

    size = st.one_of(
        st.integers(0, 60),
        st.integers(0, 60),
        st.sampled_from([4000, 4096, BUF - 41, BUF - 40, BUF - 39, BUF, BUF + 1, 40000]),
        st.integers(100, 3000),
    )

    @st.composite
    def scen(draw):
        style = draw(st.sampled_from(["fluent", "fluent", "nested", "oneline", "ini"]))
        sink = draw(st.sampled_from(["plain", "plain", "size", "daily", "startup"]))
        threads = draw(st.sampled_from([0, 0, 1, 2, 3]))
        npre = draw(st.one_of(st.integers(0, 12), st.integers(0, 300)))
        big_budget = 12  # at most this many messages above 3000 bytes, to keep a scenario fast
        pre = []
        for _ in range(npre):
            s = draw(size)
            if s > 3000:
                if big_budget == 0:
                    s = s % 61
                else:
                    big_budget -= 1
            pre.append([draw(st.integers(0, threads)), s])
        return dict(
            style=style,
            sink=sink,
            L=draw(st.sampled_from([200, 200, 1000, 5000, 20000, 100000])),
            old=draw(st.integers(0, 3)),
            netFile=draw(st.booleans()) if style == "nested" else False,
            stderrFull=draw(st.sampled_from([False, False, True])) if style in ("oneline", "ini") else False,  # lines left in app.log by an earlier run (makes on-startup rotation happen)
            compress=draw(st.booleans()),
            pre=pre,
            threads=threads,
            fatalThread=draw(st.integers(0, 1)),
            fatalVia=draw(st.sampled_from(["qfatal", "qcfatal"])),
            busy=draw(st.sampled_from([0, 0, 0, 1, 2])),
            slow=draw(st.booleans()) if style == "fluent" else False,
            siblings=draw(st.integers(1, 3)) if style == "nested" else 0,
            fatalSize=draw(st.sampled_from([0, 10, 200, BUF + 5])),
            app=draw(st.booleans()),
            installFirst=draw(st.sampled_from([False, False, True])) if style in ("fluent", "nested") else False,
            # a sink whose flush() reports failure sits in front of the healthy file sink: a FileSink on a full volume, a custom sink
            troubled=draw(st.sampled_from(["", "", "devfull", "custom"])) if style in ("fluent", "nested") else "",
            extraFile=draw(st.sampled_from([False, False, True])),
        )

    return scen()


if __name__ == "__main__":
    try:
        rc = hyp_main("C11", None if os.environ.get("VERIF_REPLAY") else strategy(), run, 60)
    finally:
        if not os.environ.get("VERIF_SCRATCH"):
            shutil.rmtree(SCRATCH, ignore_errors=True)
    sys.exit(rc)
