"""Plumbing shared by the Hypothesis-driven checks (run with python3-vt).

Same protocol as the rapidcheck harnesses (harness/common/verif.h):
  env VERIF_PROP, VERIF_STATS, VERIF_FAILCASE, VERIF_REPLAY, VERIF_SCRATCH, VERIF_TIER,
      VERIF_HSEED (seed for @seed), VERIF_CASES (max_examples)
  exit 0 = held on everything generated, 1 = falsified (case file written), else harness problem.
Cases are plain JSON-able dicts; `run(case)` returns "" or the reason; replay calls run() directly.
"""
import hashlib, json, os, sys, traceback


class Stats:
    def __init__(self):
        self.evaluations = 0
        self.nontrivial = set()
        self.classes = {}
        self.counters = {}
        self.samples = []
        self.trivial_samples = []
        self.fail_message = ""
        self.failures = 0

    def cls(self, name, cond=True):
        self.classes[name] = self.classes.get(name, 0) + (1 if cond else 0)

    def count(self, name, n=1):
        self.counters[name] = self.counters.get(name, 0) + n

    def note_case(self, canon, nontrivial):
        self.evaluations += 1
        h = hashlib.sha1(json.dumps(canon, sort_keys=True).encode()).hexdigest()[:16]
        if nontrivial:
            if h not in self.nontrivial:
                self.nontrivial.add(h)
                if len(self.samples) < 4:
                    self.samples.append(canon)
        elif not self.trivial_samples:
            self.trivial_samples.append(canon)

    def dump(self, ok):
        p = os.environ.get("VERIF_STATS")
        if not p:
            return
        o = dict(
            ok=ok,
            evaluations=self.evaluations,
            distinct_nontrivial=len(self.nontrivial),
            failures=self.failures,
            fail_message=self.fail_message,
            classes=self.classes,
            counters=self.counters,
            samples=self.samples or self.trivial_samples,
            nontrivial_hashes=sorted(self.nontrivial),
        )
        with open(p, "w") as f:
            json.dump(o, f)


STATS = Stats()


def fail_case(case, why):
    STATS.failures += 1
    STATS.fail_message = why
    p = os.environ.get("VERIF_FAILCASE")
    if p:
        with open(p, "w") as f:
            json.dump(dict(property=os.environ.get("VERIF_PROP", ""), why=why, case=case), f, indent=1)
        if STATS.failures == 1:  # the case as generated (a shrunk schedule-dependent case may fail only rarely: the driver's fall-back)
            with open(p + ".first", "w") as f:
                json.dump(dict(property=os.environ.get("VERIF_PROP", ""), why=why, case=case), f, indent=1)


def read_case(path):
    with open(path) as f:
        o = json.load(f)
    return o["case"] if isinstance(o, dict) and "case" in o else o


def hyp_main(name, strategy, run, max_examples_default=50, stateful_steps=None):
    """strategy: hypothesis strategy producing a case; run(case) -> '' | reason"""
    rp = os.environ.get("VERIF_REPLAY")
    if rp:
        c = read_case(rp)
        why = run(c)
        if why:
            fail_case(c, why)
            print("REPLAY-FAIL %s: %s" % (name, why))
            STATS.dump(False)
            return 1
        print("REPLAY-OK %s" % name)
        STATS.dump(True)
        return 0

    from hypothesis import HealthCheck, Phase, given, seed, settings

    n = int(os.environ.get("VERIF_CASES", max_examples_default))
    sd = int(os.environ.get("VERIF_HSEED", "1"))
    import time

    budget = float(os.environ.get("VERIF_DEADLINE_S", "0") or 0)
    t_end = time.time() + budget if budget > 0 else None

    @seed(sd)
    @settings(
        max_examples=n,
        database=None,
        deadline=None,
        derandomize=False,
        report_multiple_bugs=False,
        suppress_health_check=list(HealthCheck),
        phases=[Phase.generate, Phase.shrink],
        print_blob=False,
    )
    @given(strategy)
    def prop(c):
        if t_end is not None and time.time() > t_end and not STATS.failures:  # (once a failure is known the remaining work is shrinking: never skipped)
            # time budget used up: the remaining examples are skipped (inconclusive beyond this point, never a failure)
            STATS.counters["examples_skipped_after_time_budget"] = STATS.counters.get("examples_skipped_after_time_budget", 0) + 1
            return
        why = run(c)
        if why:
            fail_case(c, why)  # the last one written is the shrunk one
            raise AssertionError(why)

    try:
        prop()
    except AssertionError as e:
        print("Falsifiable %s: %s" % (name, str(e)[:2000]))
        STATS.dump(False)
        return 1
    except BaseException as e:
        if "Flaky" in type(e).__name__ and STATS.failures:
            # the case failed once and passed when Hypothesis re-ran it: schedule-dependent. The failing case is on disk;
            # the driver replays it (confirm_replays) and reports it as inconclusive when it does not fail again.
            print("Falsifiable (not reproduced by Hypothesis' own re-run) %s: %s" % (name, STATS.fail_message[:1500]))
            STATS.count("flaky_failures")
            STATS.dump(False)
            return 1
        traceback.print_exc()
        STATS.dump(False)
        # a harness problem (exception outside the oracle) is not a violation
        return 3
    print("OK %s: %d cases" % (name, STATS.evaluations))
    STATS.dump(True)
    return 0
