"""C04 - stopping asynchronous logging drains every accepted message and terminates.

Hypothesis generates shutdown scenarios, each executed by a child (harness/runner_shutdown.cpp). The child writes a
journal with write(2) (B/A around every log call, D from the sink, S/E around the stop, X destruction, Z end of main).
Oracle over the journal:
  * no id is delivered twice; every id whose call returned (A) is delivered exactly once by the time the process is gone
  * every id accepted before the stop began (A before S) is delivered before the stop returned (D before E)
  * ids logged after the stop returned are delivered inside their own call on the caller's thread (synchronous fallback)
  * nothing is delivered after the subject was destroyed (X); ASan watches for a destroyed worker being touched
  * the child terminates within backlog x delay + 25 s (re-run twice on a miss; a violation only if it never terminates)
With the one-line configuration the deliveries are read from the log file instead of D lines.
"""
import json, os, re, shutil, signal, subprocess, sys, tempfile, time

sys.path.insert(0, os.path.dirname(os.path.abspath(__file__)))
from hypcommon import STATS, hyp_main

RUNNER = os.environ.get("VERIF_RUNNER_SHUTDOWN")
SCRATCH = os.environ.get("VERIF_SCRATCH") or tempfile.mkdtemp(prefix="verif-c04-", dir="/dev/shm")


HANG_CONFIRMED = [False]
QT_DIAG = set()


def run_child(case, work, bound):
    d = os.path.join(work, "logs")
    os.makedirs(d, exist_ok=True)
    j = os.path.join(work, "journal.txt")
    if os.path.exists(j):
        os.unlink(j)
    for f in os.listdir(d):
        os.unlink(os.path.join(d, f))
    sc = dict(case)
    sc["journal"] = j
    sc["dir"] = d
    sp = os.path.join(work, "scenario.json")
    with open(sp, "w") as f:
        json.dump(sc, f)
    env = dict(os.environ)
    env["ASAN_OPTIONS"] = "handle_abort=1:detect_leaks=0:exitcode=98:handle_segv=1"
    env["UBSAN_OPTIONS"] = "halt_on_error=1:exitcode=98"
    env["TZ"] = "UTC"
    env["LC_ALL"] = "C.UTF-8"
    t0 = time.time()
    idle_s = 0.0
    p = subprocess.Popen([RUNNER, sp], env=env, stdout=subprocess.DEVNULL, stderr=subprocess.PIPE, cwd=work)
    try:
        _, err = p.communicate(timeout=bound)
        rc = p.returncode
        hung = False
    except subprocess.TimeoutExpired:
        hung = True
        try:
            idle_s = time.time() - os.path.getmtime(j)
        except OSError:
            idle_s = time.time() - t0
        p.kill()
        _, err = p.communicate()
        rc = None
    journal = []
    if os.path.exists(j):
        with open(j) as f:
            journal = [l.split() for l in f.read().splitlines() if l.strip()]
    filetext = b""
    lp = os.path.join(d, "app.log")
    if os.path.exists(lp):
        with open(lp, "rb") as f:
            filetext = f.read()
    return dict(rc=rc, hung=hung, idle_s=idle_s, err=(err or b"").decode(errors="replace"), journal=journal, filetext=filetext, secs=time.time() - t0)


def analyse(case, r):
    jr = r["journal"]
    pos = {}
    B, A, D = {}, {}, {}
    S = E = X = Z = None
    for i, l in enumerate(jr):
        k = l[0]
        if k == "B":
            B[int(l[1])] = (i, int(l[2]))
        elif k == "A":
            A[int(l[1])] = i
        elif k == "D":
            D.setdefault(int(l[1]), []).append((i, int(l[2])))
        elif k == "S":
            S = i
        elif k == "E":
            E = i
        elif k == "X":
            X = i
        elif k == "Z":
            Z = i
        elif k == "W":
            STATS.count("qt_diagnostics_through_the_handler")
            w = " ".join(l[1:])[:160]
            if w not in QT_DIAG:
                QT_DIAG.add(w)
                print("NOTE Qt diagnostic seen by the sink: " + w)
    oneline = case["config"] == "oneline"
    if oneline:
        # deliveries = lines of the log file
        ids = [int(m) for m in re.findall(rb"id=(\d+)", r["filetext"])]
        cnt = {}
        for i in ids:
            cnt[i] = cnt.get(i, 0) + 1
        for i, n in cnt.items():
            if n > 1:
                return "message id=%d is in the log file %d times (delivered twice)" % (i, n)
        for i in A:
            if cnt.get(i, 0) != 1:
                return "message id=%d was accepted (its log call returned) but is %s in the log file after the process ended; %d of %d accepted messages present" % (
                    i, "missing" if not cnt.get(i) else "duplicated", sum(1 for k in A if cnt.get(k) == 1), len(A))
        return ""
    for i, ds in D.items():
        if len(ds) > 1:
            return "message id=%d was delivered %d times" % (i, len(ds))
        if i not in B:
            return "a message id=%d was delivered that nobody logged" % i
    for i, a in A.items():
        if i not in D:
            return "message id=%d was accepted (its log call returned%s) but never delivered; %d of %d accepted messages delivered; stop path %s" % (
                i, " before the stop began" if S is not None and a < S else "", sum(1 for k in A if k in D), len(A), case["stop"])
    if S is not None and E is not None:
        for i, a in A.items():
            if a < S and D[i][0][0] > E:
                return "message id=%d was accepted before the stop began but delivered only after the stop had returned" % i
    if E is not None:
        for i, (b, btid) in B.items():
            if b > E and i in A:
                di, dtid = D[i][0]
                if not (b < di < A[i]) or dtid != btid:
                    return "message id=%d logged after the stop returned was not delivered synchronously inside its call on the caller's thread (delivered %s, caller thread %d, delivering thread %d)" % (
                        i, "inside the call" if b < di < A[i] else "outside the call", btid, dtid)
    if X is not None:
        for i, ds in D.items():
            if ds[0][0] > X:
                return "message id=%d was delivered after the handler object had been destroyed" % i
    # deliveries of one producer thread keep the producer's order
    last = {}
    order = sorted((ds[0][0], i) for i, ds in D.items())
    for _, i in order:
        t = B[i][1]
        if last.get(t, -1) > B[i][0]:
            return "deliveries of thread %d are not in the order the thread logged them (id=%d)" % (t, i)
        last[t] = B[i][0]
    return ""


def known_static_destruction_class(case):
    """known finding C04-static-destruction-with-qt-globals: the one-line pipeline (QRegularExpression, codecs) still has
    messages to process when exit() runs the static destructors while the application object is alive"""
    return case["config"] == "oneline" and (case["stop"] == "exit_call" or (case["stop"] == "exit_return" and case["app"] == "heap")) and case["app"] != "none"


def run(case):
    if not RUNNER:
        return "harness problem: VERIF_RUNNER_SHUTDOWN not set"
    work = tempfile.mkdtemp(prefix="c04-", dir=SCRATCH)
    try:
        total = case["backlog"] + case["racers"] * case["racerMsgs"] + case["after"] + 2 * case["cycles"] * case["cycleMsgs"]
        bound = total * case["delayUs"] / 1e6 + case.get("stallMs", 0) / 1e3 + 25
        # Non-termination is the property. A child counts as hung when the bound (>= 100x the expected duration) passes AND its
        # journal has not grown for at least 10 s (slowness shows progress, a hang does not). The scenario is a violation when it
        # hangs twice in up to six runs: a deadlock that needs a particular interleaving does not hang every time.
        max_runs, need = 6, 2
        if HANG_CONFIRMED[0] and not os.environ.get("VERIF_REPLAY"):
            # a hang has been confirmed in this run: while shrinking it, a shorter bound keeps the search affordable; the driver
            # replays the final case with the full procedure before reporting it
            bound = total * case["delayUs"] / 1e6 * 2 + case.get("stallMs", 0) / 1e3 + 12
            max_runs, need = 2, 1
        hangs, r, last_hung = 0, None, None
        for attempt in range(max_runs):
            r = run_child(case, work, bound)
            if r["hung"] and r["idle_s"] >= 10:
                hangs += 1
                last_hung = r
                if hangs >= need:
                    break
            elif r["hung"]:
                STATS.count("slow_children_not_counted_as_hung")
            else:
                if hangs == 0:
                    break
        if hangs >= need:
            HANG_CONFIRMED[0] = True
            jr = last_hung["journal"]
            nA = sum(1 for l in jr if l[0] == "A")
            nD = sum(1 for l in jr if l[0] == "D")
            z = any(l[0] == "Z" for l in jr)
            e_missing = any(l[0] == "S" for l in jr) and not any(l[0] == "E" for l in jr)
            return "the process did not terminate within %.0f s and made no progress for %.0f s (%d of %d runs): stop path %s, app %s, %d messages accepted, %d delivered, %s" % (
                bound, last_hung["idle_s"], hangs, attempt + 1, case["stop"], case["app"], nA, nD,
                "the stop never returned" if e_missing else ("end of main reached (hangs in static destruction)" if z else "end of main not reached"))
        if hangs:
            STATS.count("hangs_not_reproduced")
        if r["hung"]:
            return ""  # slow, not hung: inconclusive, never a violation
        if r["rc"] == 98:
            return "sanitizer report in the child: " + r["err"][-1800:]
        if r["rc"] != 0:
            return "child ended with status %s: %s" % (r["rc"], r["err"][-800:])
        jr = r["journal"]
        # classes / non-triviality: was there a backlog at the instant of the stop?
        S = next((i for i, l in enumerate(jr) if l[0] == "S"), None)
        stop_at = S if S is not None else next((i for i, l in enumerate(jr) if l[0] == "Z"), len(jr))
        acc = {int(l[1]) for l in jr[:stop_at] if l[0] == "A"}
        dl = {int(l[1]) for l in jr[:stop_at] if l[0] == "D"}
        backlog_at_stop = len(acc - dl)
        if case["config"] == "oneline":
            backlog_at_stop = case["backlog"]  # not observable through the journal
        STATS.cls("backlog_at_stop>=1", backlog_at_stop >= 1)
        STATS.cls("backlog_at_stop>=20", backlog_at_stop >= 20)
        STATS.cls("racing_producers", case["racers"] > 0 and case["stop"] in ("reset", "quit"))
        STATS.cls("messages_after_stop", case["after"] > 0)
        STATS.cls("cycles", case["cycles"] > 0)
        STATS.cls("cycles>=60", case["cycles"] >= 60)
        STATS.cls("every_cycle_under_traffic_from_another_thread", bool(case.get("cycleRacer")) and not case.get("alignStop") and case["cycles"] > 0 and case["config"] != "oneline")
        STATS.cls("stop_aligned_with_worker_finishing", bool(case.get("alignStop")))
        STATS.cls("earlier_application_objects_destroyed_with_a_backlog", case.get("appCycles", 0) > 0 and case["config"] != "oneline")
        STATS.cls("stop_" + case["stop"])
        STATS.cls("app_" + case["app"])
        STATS.cls("exit_without_exec", case["stop"] == "exit_return" and case["app"] != "heap" and not case["loopRan"])
        STATS.cls("config_oneline", case["config"] == "oneline")
        STATS.cls("stalled_delivery_at_stop", case.get("stallMs", 0) > 0 and case["backlog"] > 0)
        STATS.note_case(dict(stop=case["stop"], app=case["app"], subject=case["subject"], config=case["config"], loopRan=case["loopRan"], backlog=min(backlog_at_stop, 50) // 10,
                             delay=case["delayUs"], racers=case["racers"], cycles=case["cycles"], after=min(case["after"], 1)), backlog_at_stop >= 1)
        return analyse(case, r)
    finally:
        shutil.rmtree(work, ignore_errors=True)


def strategy():
    from hypothesis import strategies as st

    tier = os.environ.get("VERIF_TIER", "quick")
    cap = 1.0 if tier == "quick" else 5.0  # seconds of backlog x delay

    @st.composite
    def scen(draw):
        subject = draw(st.sampled_from(["singleton", "singleton", "local", "bare"]))
        config = draw(st.sampled_from(["fluent", "fluent", "fluent", "oneline"])) if subject == "singleton" else "fluent"
        app = draw(st.sampled_from(["none", "stack", "stack", "heap"]))
        stops = ["reset"]
        if subject != "singleton":
            stops.append("destroy")
        if app != "none":
            stops.append("quit")
        if subject == "singleton":
            stops += ["exit_return", "exit_call", "exit_return"]
        stop = draw(st.sampled_from(stops))
        delay = draw(st.sampled_from([0, 0, 200, 5000]))
        backlog = draw(st.one_of(st.integers(0, 5), st.integers(0, 60), st.integers(0, 500)))
        if delay:
            backlog = min(backlog, int(cap * 1e6 / delay))
        racers = draw(st.sampled_from([0, 0, 1, 2, 3]))
        racer_msgs = draw(st.integers(1, 40)) if racers else 0
        if delay >= 5000:
            racer_msgs = min(racer_msgs, 10)
        # many start/stop cycles in one process: a stop that can miss the worker's "drained" signal shows only once in a while
        cycles = draw(st.sampled_from([0, 0, 0, 1, 1, 2, 2, 4, 4, 60, 250])) if config != "oneline" else 0
        loop_ran = draw(st.booleans()) if app != "none" else False
        if "C04-static-destruction-with-qt-globals" in os.environ.get("VERIF_EXCLUDE", "").split(",") and known_static_destruction_class(
                dict(config=config, stop=stop, app=app)):
            STATS.count("excluded_known_static_destruction_class")
            config = "fluent"  # same stop path with the journaling sink, which needs no Qt global
        return dict(
            subject=subject, config=config, app=app, stop=stop, delayUs=delay, backlog=backlog, racers=racers, racerMsgs=racer_msgs,
            after=draw(st.sampled_from([0, 0, 1, 5])) if stop in ("reset", "quit") else 0,
            cycles=cycles, cycleMsgs=(draw(st.integers(1, 8)) if cycles < 50 else draw(st.integers(1, 2))) if cycles else 0,
            loopRan=loop_ran, reAsync=draw(st.booleans()) if loop_ran else False,
            alignStop=draw(st.booleans()) if (cycles >= 60 and app != "none") else False,
            cycleRacer=draw(st.sampled_from([0, 1, 1])) if cycles >= 4 else 0,  # (ignored by the runner together with alignStop)
            # the delivery of the last queued message takes longer than the 3 s the stop grants the thread to finish
            # (more often when the application object goes away without exec(): the worker is then on its own for the rest of the queue)
            stallMs=draw(st.sampled_from([0] * 19 + [3500] if not (stop == "exit_return" and app != "none") else [0] * 4 + [3500])) if (config == "fluent" and racers == 0 and backlog > 0 and stop != "exit_call") else 0,
            # earlier application objects in the same process, each destroyed without exec() while messages are queued
            appCycles=draw(st.sampled_from([0, 0, 0, 1, 2])) if config != "oneline" else 0,
            appCycleMsgs=draw(st.integers(1, 30)),
        )

    return scen()


if __name__ == "__main__":
    try:
        rc = hyp_main("C04", None if os.environ.get("VERIF_REPLAY") else strategy(), run, 60)
    finally:
        if not os.environ.get("VERIF_SCRATCH"):
            shutil.rmtree(SCRATCH, ignore_errors=True)
    sys.exit(rc)
