"""C20 - the single header is exactly the amalgamation of the sources.

Three oracles, all on a scratch copy of the tree under test (VERIF_REPO):
  base  : tools/gen_qtlogger.h.py run on the copy must reproduce the committed qtlogger.h byte for byte
  lines : independent containment oracle that does not use the generator: the non-blank lines of the
          committed header (minus its fixed preamble and the '// name' / '// end name' frames) are, as
          a multiset, exactly the non-blank lines of all files under src/qtlogger (minus local
          #include lines that resolve, SPDX/Copyright lines, '#pragma once'), every file exactly once
  edits : generated marker edits (Hypothesis): a unique preprocessor line inserted at (file, line),
          or a unique token appended to an existing line, must (i) change the generator's output,
          (ii) appear in it exactly once, (iii) give back the committed header once removed again.
          "stale": the generator is re-run over the previously generated header (older than the edit), as a maintainer does;
          "utf8": the marker carries UTF-8 text outside ASCII, which must arrive byte for byte.
Case: {"kind": "insert"|"append"|"base", "file": relative path, "line": int, "marker": hex, "stale": 0|1, "utf8": 0..4}
"""
import collections, os, re, shutil, subprocess, sys

sys.path.insert(0, os.path.dirname(os.path.abspath(__file__)))
from hypcommon import STATS, hyp_main

REPO = os.environ.get("VERIF_REPO", "/repo")
SCRATCH = os.environ.get("VERIF_SCRATCH") or "/dev/shm/verif-c20-%d" % os.getpid()
# The scratch checkout lives below directories whose names merely START like a build directory (GitLab's /builds/<group>/<project>, a
# home directory "builder"): where a checkout is must not change what the generator makes of it. (A component named exactly "build" is
# avoided: the pinned generator already skips every path containing "/build/".)
TREE = os.path.join(SCRATCH, "builds", "acme-build", "cmake-build-debug.keep", "tree")


def prepare():
    shutil.rmtree(TREE, ignore_errors=True)
    os.makedirs(TREE)
    shutil.copytree(os.path.join(REPO, "src"), os.path.join(TREE, "src"), ignore=shutil.ignore_patterns("build", "_build"))
    shutil.copytree(os.path.join(REPO, "tools"), os.path.join(TREE, "tools"))
    shutil.copyfile(os.path.join(REPO, "qtlogger.h"), os.path.join(TREE, "committed.h"))


def sources():
    out = []
    root = os.path.join(TREE, "src", "qtlogger")
    for d, dirs, files in os.walk(root):
        dirs.sort()
        for f in sorted(files):
            if f.endswith((".h", ".cpp")):
                out.append(os.path.relpath(os.path.join(d, f), TREE))
    return out


def generate(previous=None, edited=None):
    """runs the tree's own generator on the scratch copy, returns the bytes it wrote.
    previous=None: no header exists beforehand. previous=bytes: the workflow of a maintainer - the header generated earlier is in
    place (time stamp T), then a source file was edited (time stamp T + 10 s), then the generator is run again; a generator that
    decides for itself whether there is anything to do must still reflect the edit."""
    out = os.path.join(TREE, "qtlogger.h")
    if os.path.exists(out):
        os.unlink(out)
    if previous is not None:
        with open(out, "wb") as f:
            f.write(previous)
        import time as _t

        t0 = _t.time() - 3600
        for d, _, files in os.walk(TREE):
            for fn in files:
                os.utime(os.path.join(d, fn), (t0 - 100, t0 - 100))
        os.utime(out, (t0, t0))
        if edited:
            os.utime(edited, (t0 + 10, t0 + 10))
    r = subprocess.run([sys.executable, os.path.join(TREE, "tools", "gen_qtlogger.h.py")], stdout=subprocess.PIPE, stderr=subprocess.STDOUT, cwd=TREE)
    if r.returncode != 0 or not os.path.exists(out):
        return None, r.stdout.decode(errors="replace")[-1500:]
    with open(out, "rb") as f:
        return f.read(), ""


def committed():
    with open(os.path.join(TREE, "committed.h"), "rb") as f:
        return f.read()


def first_diff(a, b):
    la, lb = a.split(b"\n"), b.split(b"\n")
    for i, (x, y) in enumerate(zip(la, lb)):
        if x != y:
            return "line %d: committed %r vs generated %r" % (i + 1, x[:120], y[:120])
    return "length differs: committed %d lines, generated %d lines" % (len(la), len(lb))


# ------------------------------------------------------------------ independent line oracle
FRAME = re.compile(rb"^// (end )?[A-Za-z0-9_.+-]+\.(h|cpp)$")


def lines_oracle():
    hdr = committed().split(b"\n")
    try:
        start = hdr.index(b"#define QTLOGGER_DECL_SPEC inline")
    except ValueError:
        return "committed header lacks '#define QTLOGGER_DECL_SPEC inline'"
    have = collections.Counter()
    for l in hdr[start + 1 :]:
        if l.strip() == b"" or FRAME.match(l):
            continue
        have[l] += 1
    want = collections.Counter()
    per_file = {}
    root = os.path.join(TREE, "src", "qtlogger")
    for rel in sources():
        p = os.path.join(TREE, rel)
        with open(p, "rb") as f:
            text = f.read()
        cnt = collections.Counter()
        for l in text.split(b"\n"):
            m = re.search(rb'#\s*include "([^"]+)"', l)
            if m:
                inc = m.group(1).decode()
                cands = [os.path.join(os.path.dirname(p), inc), os.path.join(os.path.dirname(p), "..", inc)]
                if any(os.path.exists(c) for c in cands):
                    # a resolved local include is replaced by the file's text (or nothing); what else is on the line stays
                    l = re.sub(rb'#\s*include "([^"]+)"', b"", l)
            l = re.sub(rb"// SPDX.*", b"", l)
            l = re.sub(rb"// Copyright.*", b"", l)
            l = l.replace(b"#pragma once", b"")
            if l.strip() == b"" or FRAME.match(l):
                continue
            cnt[l] += 1
        per_file[rel] = cnt
        want.update(cnt)
    if have == want:
        return ""
    missing = want - have
    extra = have - want
    msg = []
    if missing:
        l, n = next(iter(missing.items()))
        owner = [r for r, c in per_file.items() if l in c][:2]
        msg.append("%d source line(s) missing from the header, e.g. %r of %s" % (sum(missing.values()), l[:100], owner))
    if extra:
        l, n = next(iter(extra.items()))
        msg.append("%d header line(s) that no source file has (or duplicated), e.g. %r" % (sum(extra.values()), l[:100]))
    return "; ".join(msg)


# ------------------------------------------------------------------ cases
def collapse(b):
    return re.sub(rb"\n{3,}", b"\n\n", b)


def run(case):
    kind = case["kind"]
    if kind == "base":
        gen, err = generate()
        if gen is None:
            return "generator failed: " + err
        STATS.note_case(case, True)
        if gen != committed():
            return "committed qtlogger.h differs from the generator's output on the current sources: " + first_diff(committed(), gen)
        gen2, err = generate(previous=committed())
        if gen2 is None:
            return "generator failed when the header already exists: " + err
        if gen2 != committed():
            return "re-running the generator over the existing header changes it: " + first_diff(committed(), gen2)
        return lines_oracle()
    if kind == "twin":
        return run_twin(case)
    rel = case["file"]
    p = os.path.join(TREE, rel)
    if not os.path.exists(p):
        return ""  # replay of a case whose file no longer exists: nothing to decide
    with open(p, "rb") as f:
        orig = f.read()
    lines = orig.split(b"\n")
    marker = ("VERIFMARK_%s" % case["marker"]).encode()
    payload = b"1"
    if case.get("utf8"):  # the sources are UTF-8 (Qt's source encoding): text outside ASCII must arrive in the header unchanged as well
        payload = ('"%s"' % ["\u00b5s", "\u65e5\u672c", "caf\u00e9 \U0001F600", "\u00e4\u00f6\u00fc\u20ac"][int(case["utf8"]) % 4]).encode("utf-8")
        marker = marker + b" " + payload
    try:
        if kind == "insert":
            ln = int(case["line"]) * (len(lines) + 1) // 10001  # position as a fraction of the file
            mline = b"#define " + marker if case.get("utf8") else b"#define " + marker + b" 1"
            new = lines[:ln] + [mline] + lines[ln:]
        else:  # append a token to an existing non-blank line
            idx = [i for i, l in enumerate(lines) if l.strip() and not re.search(rb'#\s*include "', l) and b"SPDX" not in l and b"Copyright" not in l and b"#pragma once" not in l]
            if not idx:
                return ""
            ln = idx[int(case["line"]) % len(idx)]
            new = list(lines)
            new[ln] = lines[ln] + b" /*" + marker + b"*/"
        with open(p, "wb") as f:
            f.write(b"\n".join(new))
        gen, err = generate(previous=committed(), edited=p) if case.get("stale") else generate()
    finally:
        with open(p, "wb") as f:
            f.write(orig)
    STATS.note_case(dict(file=rel, line=ln, kind=kind), True)
    STATS.count("edits_in_" + rel.split("/")[2] if rel.count("/") >= 3 else "edits_in_top")
    STATS.cls("kind_" + kind)
    STATS.cls("edit_with_text_outside_ascii", bool(case.get("utf8")))
    STATS.cls("generator_rerun_over_existing_header", bool(case.get("stale")))
    if gen is None:
        return "generator failed on an edited tree: " + err
    base = committed()
    where = "%s:%d (%s)" % (rel, ln + 1, kind)
    if gen == base:
        return "an edit at %s does not change the generated header: the file is not part of the amalgamation" % where
    n = gen.count(marker)
    if n != 1:
        return "an edit at %s appears %d times in the generated header (expected exactly once)" % (where, n)
    if kind == "insert":
        back = b"\n".join(l for l in gen.split(b"\n") if marker not in l)
    else:
        back = gen.replace(b" /*" + marker + b"*/", b"")
    if collapse(back) != base:
        return "after removing the edit at %s again the generated header is not the committed one: %s" % (where, first_diff(base, collapse(back)))
    return ""


def run_twin(case):
    """A new private header whose file NAME already exists in another directory of the sources (filters/utils.h next to utils.h) is
    included from a .cpp of its own directory. Its text must reach the header exactly once and nothing that was there may be lost."""
    rel = case["file"]  # the including .cpp
    p = os.path.join(TREE, rel)
    if not os.path.exists(p) or not rel.endswith(".cpp"):
        return ""
    d = os.path.dirname(p)
    names = sorted({os.path.basename(x) for x in sources() if x.endswith(".h") and not os.path.exists(os.path.join(d, os.path.basename(x)))})
    if not names:
        return ""
    name = names[int(case["line"]) % len(names)]
    twin = os.path.join(d, name)
    marker = ("VERIFMARK_%s" % case["marker"]).encode()
    with open(p, "rb") as f:
        orig = f.read()
    lines = orig.split(b"\n")
    inc = [i for i, l in enumerate(lines) if re.search(rb'#\s*include "', l)]
    at = inc[0] if inc else 0
    try:
        with open(twin, "wb") as f:
            f.write(b"#pragma once\n\n#define " + marker + b" 1\n")
        with open(p, "wb") as f:
            f.write(b"\n".join(lines[:at] + [b'#include "' + name.encode() + b'"'] + lines[at:]))
        gen, err = generate(previous=committed(), edited=p) if case.get("stale") else generate()
    finally:
        with open(p, "wb") as f:
            f.write(orig)
        if os.path.exists(twin):
            os.unlink(twin)
    STATS.note_case(dict(file=rel, twin=name, kind="twin"), True)
    STATS.cls("kind_twin_header_with_an_existing_file_name")
    if gen is None:
        return "generator failed on a tree with a second header named %s: %s" % (name, err)
    where = "%s including a new %s/%s" % (rel, os.path.basename(d), name)
    n = gen.count(marker)
    if n != 1:
        return "%s: the new header's text appears %d times in the generated header (expected exactly once)" % (where, n)
    have = collections.Counter(l for l in gen.split(b"\n") if l.strip())
    for l, k in collections.Counter(l for l in committed().split(b"\n") if l.strip()).items():
        if have[l] < k:
            return "%s: line %r of the committed header occurs %d times instead of %d in the generated one (text of another file was dropped)" % (where, l[:120], have[l], k)
    return ""


def main():
    prepare()
    try:
        if os.environ.get("VERIF_REPLAY"):
            return hyp_main("C20", None, run)
        # the deciding differential + the independent line oracle, once
        why = run(dict(kind="base"))
        if why:
            from hypcommon import fail_case

            fail_case(dict(kind="base"), why)
            print("Falsifiable C20 base: " + why)
            STATS.dump(False)
            return 1
        from hypothesis import strategies as st

        files = sources()
        STATS.count("source_files", len(files))
        sweep = os.environ.get("VERIF_TIER") == "thorough" and os.environ.get("VERIF_SHARD", "0") == "0"
        if sweep:  # every file once: exhaustive over files
            for i, rel in enumerate(files):
                c = dict(kind="insert", file=rel, line=5000, marker="%08x" % (0xA0000000 + i), stale=1, utf8=i % 5)
                why = run(c)
                if why:
                    from hypcommon import fail_case

                    fail_case(c, why)
                    print("Falsifiable C20 sweep: " + why)
                    STATS.dump(False)
                    return 1
            STATS.count("all_files_sweep", len(files))
        strat = st.fixed_dictionaries(
            dict(
                kind=st.sampled_from(["insert", "insert", "append", "insert", "append", "twin"]),
                file=st.sampled_from(files),
                line=st.integers(0, 10000),
                marker=st.integers(0, 2**32 - 1).map(lambda x: "%08x" % x),
                utf8=st.sampled_from([0, 0, 0, 1, 2, 3, 4]),
                stale=st.sampled_from([0, 1, 1]),
            )
        )
        return hyp_main("C20", strat, run, 40)
    finally:
        shutil.rmtree(TREE, ignore_errors=True)


if __name__ == "__main__":
    sys.exit(main())
