"""libFuzzer engine of the driver: builds the targets of harness/fuzz_targets.cpp with clang++ against the
formatter/filter translation units of the tree under test, runs campaigns, triages artifacts, writes evidence."""
import glob, json, os, re, shutil, subprocess, sys, time

FUZZ_FLAGS = "-std=gnu++17 -g -O1 -fPIC -fno-omit-frame-pointer -fsanitize=address,undefined -fno-sanitize-recover=undefined"
TARGETS = {
    # name: (define, max_len quick, max_len thorough, extra libFuzzer args)
    "pattern": ("FUZZ_PATTERN", 4096, 65536),
    "func": ("FUZZ_FUNC", 4096, 65536),
    "formatters": ("FUZZ_FORMATTERS", 4096, 65536),
    "catfilter": ("FUZZ_CATFILTER", 600, 600),
    "regexp": ("FUZZ_REGEXP", 4096, 65536),
    "catdiff": ("FUZZ_CATDIFF", 512, 2048),
    "patdiff": ("FUZZ_PATDIFF", 512, 2048),
}


def _d():
    import vdriver

    return vdriver


def lib_units():
    d = _d()
    out = []
    for sub in ("formatters", "filters"):
        out += sorted(glob.glob(os.path.join(d.REPO, "src", "qtlogger", sub, "*.cpp")))
    return out


def build_fuzz_objs():
    """every *.cpp under formatters/ and filters/ with clang++ -fsanitize=fuzzer-no-link,address,undefined"""
    d = _d()
    cflags, _ = d.qt_flags()
    headers = d.repo_files({".h"})
    os.makedirs(os.path.join(d.BUILD, "obj"), exist_ok=True)
    base = ["clang++"] + FUZZ_FLAGS.split() + ["-fsanitize=fuzzer-no-link", "-DQTLOGGER_STATIC", "-Wno-everything"] + cflags
    base += ["-I" + os.path.join(d.REPO, "src"), "-I" + os.path.join(d.REPO, "src", "qtlogger")]
    objs = []
    import concurrent.futures as cf

    def one(s):
        oh = d._sha([s] + headers, "fuzzobj:" + " ".join(base))
        o = os.path.join(d.BUILD, "obj", "fz-%s-%s.o" % (os.path.basename(s)[:-4], oh))
        with d.Lock(o + ".lock"):
            if not os.path.exists(o):
                rc, out = d.run_cmd(base + ["-c", s, "-o", o + ".tmp"])
                if rc != 0:
                    d.log(out[-6000:])
                    raise SystemExit("BUILD-ERROR: %s does not compile with clang++ for fuzzing" % s)
                os.rename(o + ".tmp", o)
            d.touch(o)
        return o

    with cf.ThreadPoolExecutor(max_workers=8) as ex:
        objs = list(ex.map(one, lib_units()))
    return objs


def build_target(name):
    d = _d()
    define = TARGETS[name][0]
    cflags, libs = d.qt_flags()
    objs = build_fuzz_objs()
    src = os.path.join(d.HARNESS, "fuzz_targets.cpp")
    common = glob.glob(os.path.join(d.HARNESS, "common", "*.h"))
    headers = d.repo_files({".h"})
    base = ["clang++"] + FUZZ_FLAGS.split() + ["-fsanitize=fuzzer", "-DQTLOGGER_STATIC", "-D" + define, "-Wno-everything"] + cflags
    base += ["-I" + os.path.join(d.REPO, "src"), "-I" + os.path.join(d.REPO, "src", "qtlogger"), "-I" + d.HARNESS]
    eh = d._sha([src] + common + headers + objs, "fuzzexe:" + " ".join(base))
    exe = os.path.join(d.BUILD, "bin", "fuzz_%s-%s" % (name, eh))
    os.makedirs(os.path.dirname(exe), exist_ok=True)
    with d.Lock(exe + ".lock"):
        if not os.path.exists(exe):
            t0 = time.time()
            rc, out = d.run_cmd(base + [src] + objs + libs + ["-o", exe + ".tmp"])
            if rc != 0:
                d.log(out[-6000:])
                raise SystemExit("BUILD-ERROR: fuzz target %s does not build" % name)
            os.rename(exe + ".tmp", exe)
            d.log("[build] fuzz target %s in %.1fs" % (name, time.time() - t0))
        d.touch(exe)
    return exe


def fuzz_env():
    d = _d()
    env = dict(os.environ)
    env.update(d.SAN_ENV)
    env["ASAN_OPTIONS"] = "handle_abort=1:detect_leaks=1:allocator_may_return_null=1:malloc_limit_mb=3000"
    env["UBSAN_OPTIONS"] = "print_stacktrace=1:halt_on_error=1"
    return env


def run_unit(exe, path, timeout):
    """runs one saved input alone; returns (status, seconds) with status in ok|crash|hang"""
    t0 = time.time()
    try:
        r = subprocess.run([exe, "-rss_limit_mb=6000", "-timeout=%d" % (timeout + 10), path], env=fuzz_env(), stdout=subprocess.PIPE, stderr=subprocess.STDOUT, timeout=timeout)
        out = r.stdout.decode(errors="replace")
        return ("ok" if r.returncode == 0 else "crash"), time.time() - t0, out
    except subprocess.TimeoutExpired as e:
        return "hang", time.time() - t0, (e.stdout or b"").decode(errors="replace")


def parse_stats(text):
    st = {}
    for m in re.finditer(r"stat::(\w+):\s+(\d+)", text):
        st[m.group(1)] = int(m.group(2))
    cov = re.findall(r"cov: (\d+) ft: (\d+) corp: (\d+)", text)
    if cov:
        st["cov"], st["ft"], st["corp"] = map(int, cov[-1])
    # -fork mode has no final stats block: its status lines read "#<total runs>: cov: .. ft: .. corp: .."
    fork = re.findall(r"^#(\d+): cov: (\d+) ft: (\d+) corp: (\d+)", text, re.M)
    if fork and "number_of_executed_units" not in st:
        st["number_of_executed_units"] = int(fork[-1][0])
        st["new_units_added"] = max(0, int(fork[-1][3]) - int(fork[0][3])) if len(fork) > 1 else int(fork[-1][3])
    return st


def campaign(name, exe, work, seed, runs, max_len, corpus_dirs, secs=0, jobs=1):
    """one libFuzzer process (or -fork=jobs for time-bounded campaigns). Returns dict(status, stats, artifacts, log)"""
    d = _d()
    wd = os.path.join(work, name)
    os.makedirs(os.path.join(wd, "corpus"), exist_ok=True)
    os.makedirs(os.path.join(wd, "art"), exist_ok=True)
    env = fuzz_env()
    env["VERIF_FUZZ_STATS"] = os.path.join(wd, "counters.json")
    cmd = [exe, "-seed=%d" % (seed or 1), "-max_len=%d" % max_len, "-timeout=25", "-rss_limit_mb=4096", "-print_final_stats=1",
           "-artifact_prefix=" + os.path.join(wd, "art") + "/", "-use_value_profile=1", "-len_control=50"]
    dict_name = {"pattern": "pattern.dict", "patdiff": "pattern.dict", "func": "func.dict"}.get(name.split("@")[0])
    if dict_name and os.path.exists(os.path.join(d.VERIF, "corpus", dict_name)):
        cmd += ["-dict=" + os.path.join(d.VERIF, "corpus", dict_name)]
    if secs:
        cmd += ["-max_total_time=%d" % secs]
        if jobs > 1:
            cmd += ["-fork=%d" % jobs, "-ignore_crashes=0", "-ignore_timeouts=1", "-ignore_ooms=1"]
    else:
        cmd += ["-runs=%d" % runs]
    cmd += [os.path.join(wd, "corpus")] + [c for c in corpus_dirs if os.path.isdir(c)]
    lp = os.path.join(wd, "log.txt")
    t0 = time.time()
    with open(lp, "w") as lf:
        p = subprocess.Popen(cmd, env=env, stdout=lf, stderr=subprocess.STDOUT, cwd=wd)
        try:
            rc = p.wait(timeout=(secs + 600) if secs else 3000)
        except subprocess.TimeoutExpired:
            p.kill()
            p.wait()
            rc = -9
    with open(lp, errors="replace") as f:
        text = f.read()
    st = parse_stats(text)
    ctr = {}
    for cf_ in glob.glob(env["VERIF_FUZZ_STATS"] + ".*"):
        try:
            with open(cf_) as f:
                for k, v in json.load(f).items():
                    ctr[k] = ctr.get(k, 0) + int(v)
        except Exception:
            pass
    if ctr:
        st["counters"] = ctr
    arts = sorted(glob.glob(os.path.join(wd, "art", "*")))
    newunits = sorted(glob.glob(os.path.join(wd, "corpus", "*")))
    return dict(name=name, rc=rc, stats=st, artifacts=arts, log=text, wall=time.time() - t0, new_units=newunits)


def fuzz_check(prop, tier, spec, replay=None):
    d = _d()
    t0 = time.time()
    seed = int(os.environ.get("VERIF_SEED", "1") or 1)
    targets = spec["targets"]
    import concurrent.futures as cf

    with cf.ThreadPoolExecutor(max_workers=len(targets)) as ex:
        exes = dict(zip(targets, ex.map(build_target, targets)))

    if replay:
        base = os.path.basename(replay)
        cand = [t for t in targets if ("-%s-" % t) in base] or targets
        bad = 0
        for t in cand:
            status, secs, out = run_unit(exes[t], replay, 300)
            print("replay on target %s: %s (%.1fs)" % (t, status, secs))
            if status != "ok":
                sys.stdout.write(out[-3000:])
                bad += 1
        if bad:
            print("VIOLATION property=%s replay=%s" % (prop, replay))
            return 1
        print("replay passed: %s" % replay)
        return 0

    violations = []
    notes = []
    work = d.scratch_dir(prop + "-fuzz")
    results = []
    try:
        # 1. regression inputs (saved artifacts of earlier findings), each alone
        nreg = 0
        for t in targets:
            for f in sorted(glob.glob(os.path.join(d.REGRESSIONS, prop, t, "*"))):
                nreg += 1
                status, secs, out = run_unit(exes[t], f, 300)
                if status != "ok":
                    d.log(out[-3000:])
                    violations.append((f, "regression input %s on target %s" % (status, t)))
        # 2. campaigns, all targets in parallel
        tspec = spec[tier]
        jobs_per = max(1, d.NCPU // len(targets)) if tier == "thorough" else 1
        with cf.ThreadPoolExecutor(max_workers=len(targets) * 2) as ex:
            futs = []
            for i, t in enumerate(targets):
                ml = TARGETS[t][1 if tier == "quick" else 2]
                corp = [os.path.join(d.VERIF, "corpus", t)]
                if tier == "quick":
                    futs.append(ex.submit(campaign, t, exes[t], work, seed * 1000 + i, tspec["runs"], ml, corp))
                else:
                    futs.append(ex.submit(campaign, t, exes[t], work, seed * 1000 + i, 0, ml, corp, tspec["secs"], jobs_per))
            results = [f.result() for f in futs]
        if tier == "thorough" and spec.get("empty_corpus_runs"):
            # second starting point: no seed corpus at all
            with cf.ThreadPoolExecutor(max_workers=len(targets)) as ex:
                futs = [ex.submit(campaign, t + "@empty", exes[t], work, seed * 1000 + 500 + i, spec["empty_corpus_runs"], TARGETS[t][1], []) for i, t in enumerate(targets)]
                results += [f.result() for f in futs]
        # 3. triage artifacts
        for r in results:
            t = r["name"].split("@")[0]
            for a in r["artifacts"]:
                b = os.path.basename(a)
                kind = b.split("-")[0]
                if kind in ("crash", "leak"):
                    status, secs, out = run_unit(exes[t], a, 300)
                    if status == "ok":
                        # does not reproduce alone: state leaked between iterations would be a harness bug; record, do not alarm
                        notes.append("artifact %s of target %s did not reproduce when run alone" % (b, t))
                        continue
                    dst = d.save_replay(prop, tier, seed, a, "-%s-%s" % (t, b[:40]))
                    d.log(out[-3500:])
                    violations.append((dst, "%s on target %s: %s" % (kind, t, first_report_line(out))))
                elif kind == "timeout":
                    # non-termination is the property; slowness is not. Re-run three times alone with a generous bound.
                    hangs = 0
                    worst = 0
                    for _ in range(3):
                        status, secs, out = run_unit(exes[t], a, 300)
                        worst = max(worst, secs)
                        hangs += status == "hang"
                        if status == "crash":
                            break
                    if hangs == 3:
                        dst = d.save_replay(prop, tier, seed, a, "-%s-%s" % (t, b[:40]))
                        violations.append((dst, "input does not terminate within 300 s on target %s (3 attempts)" % t))
                    else:
                        notes.append("slow unit on target %s: %s finished alone in %.1fs" % (t, b, worst))
                else:
                    notes.append("ignored artifact %s of target %s (load noise)" % (b, t))
            if r["rc"] != 0 and not r["artifacts"]:
                d.log(r["log"][-3000:])
                print("CHECK-ERROR property=%s: fuzz target %s exited with %s without an artifact" % (prop, r["name"], r["rc"]))
                return 2
        # evidence
        execs = sum(r["stats"].get("number_of_executed_units", 0) for r in results)
        newu = sum(r["stats"].get("new_units_added", 0) for r in results)
        samples = []
        for r in results:
            for u in r["new_units"][:1]:
                with open(u, "rb") as f:
                    samples.append(dict(target=r["name"], unit_hex=f.read(96).hex()))
        per = {}
        for r in results:
            st = r["stats"]
            per[r["name"]] = dict(executions=st.get("number_of_executed_units", 0), new_units=st.get("new_units_added", 0), coverage_edges=st.get("cov", 0),
                                  features=st.get("ft", 0), corpus=st.get("corp", 0), wall_s=round(r["wall"], 1), counters=st.get("counters", {}),
                                  peak_rss_mb=st.get("peak_rss_mb", 0))
        cov = dict(
            evaluations=execs,
            distinct_nontrivial=newu,
            rule=spec["rule"],
            samples=samples[:6] or ["(no unit added)"],
            per_target=per,
            regression_inputs_replayed=nreg,
            notes=notes,
        )
        d.write_evidence(prop, tier, seed, spec.get("level", "exploration"), cov, spec.get("assumptions", []), time.time() - t0, len(violations))
        d.log("[%s %s] executions=%d new_coverage_units=%d wall=%.1fs" % (prop, tier, execs, newu, time.time() - t0))
    finally:
        shutil.rmtree(work, ignore_errors=True)
    if violations:
        for path, why in violations:
            d.log("[%s] %s" % (prop, why))
            print("VIOLATION property=%s replay=%s" % (prop, os.path.abspath(path)))
        return 1
    return 0


def first_report_line(out):
    for l in out.splitlines():
        if "ORACLE-VIOLATION" in l or "ERROR: AddressSanitizer" in l or "runtime error:" in l or "ERROR: libFuzzer" in l:
            return l.strip()[:300]
    return "(see log)"


def extra_campaign(prop, tier, spec, seed):
    """coverage-guided differential campaign that complements a rapidcheck check (same reference oracle inside the target).
    Returns (violations, stats dict)."""
    d = _d()
    fx = spec.get("fuzz_extra")
    if not fx or tier not in fx:
        return [], None
    t = fx["target"]
    exe = build_target(t)
    violations = []
    work = d.scratch_dir(prop + "-fuzzx")
    try:
        for f in sorted(glob.glob(os.path.join(d.REGRESSIONS, prop, t, "*"))):
            status, secs, out = run_unit(exe, f, 300)
            if status != "ok":
                d.log(out[-2500:])
                violations.append((f, "regression input %s on fuzz target %s: %s" % (status, t, first_report_line(out))))
        cfgt = fx[tier]
        r = campaign(t, exe, work, seed * 1000 + 77, cfgt.get("runs", 0), TARGETS[t][1 if tier == "quick" else 2], [os.path.join(d.VERIF, "corpus", t)], cfgt.get("secs", 0), cfgt.get("jobs", 1))
        for a in r["artifacts"]:
            b = os.path.basename(a)
            if b.split("-")[0] not in ("crash", "leak"):
                continue
            status, secs, out = run_unit(exe, a, 300)
            if status == "ok":
                continue
            dst = d.save_replay(prop, tier, seed, a, "-%s-%s" % (t, b[:40]))
            d.log("\n".join(l for l in out.splitlines() if "ORACLE" in l or l.startswith("  a=") or l.startswith("  b=") or "ERROR:" in l)[:2000])
            violations.append((dst, "fuzz target %s: %s" % (t, first_report_line(out))))
        st = r["stats"]
        stats = dict(target=t, executions=st.get("number_of_executed_units", 0), new_units=st.get("new_units_added", 0), coverage_edges=st.get("cov", 0),
                     counters=st.get("counters", {}), wall_s=round(r["wall"], 1))
        if r["rc"] != 0 and not r["artifacts"]:
            stats["note"] = "libFuzzer exited with %s without an artifact" % r["rc"]
        return violations, stats
    finally:
        shutil.rmtree(work, ignore_errors=True)
