"""Per-property configuration of the checks (rules, bounds, assumptions)."""

PROPS = {}

PROPS["C17"] = dict(
    harness="rc_sorted",
    builds=[dict(harness="rc_sorted")],
    level="exploration",
    quick=dict(cases=15000, shards=4, max_size=100, timeout=900),
    thorough=dict(cases=100000, shards=16, max_size=200, timeout=3000),
    rule="case = sequence of 0..40 (max_size 100; 0..80 thorough) typed insert/clear calls on a fresh SortedPipeline or "
    "SimplePipeline, every inserted handler a distinct recording object; identity of handlers() and execution order are "
    "compared with five insertion-ordered lists after EVERY call. Non-trivial = the sequence inserts a lower-ranked class "
    "after a higher-ranked one AND holds two handlers of one class at some point; distinct = canonical JSON of the sequence.",
    assumptions=[
        "setFormatter(nullptr)/append*(nullptr) are modelled as no-ops (that is what every typed call does with a null pointer)",
        "ASan+UBSan build of library and harness (g++)",
    ],
    floors={"lower_class_after_higher": 0.3, "two_of_one_class": 0.3},
)

MANIFEST_META = dict(
    pending_reason="not claimed yet: the check described in DESIGN.md section 3 is still under construction",
    hooks=dict(
        guard="QTLOGGER_VERIF",
        enable="no source hooks exist: the harnesses interpose libc (clock, file system calls) from their own executables, see DESIGN.md 1.4",
        baseline_off_cmd="/verif/tools/baseline.sh",
        source_commits=[],
        add_only=True,
    ),
    engines=[
        dict(name="rc", path="/verif/harness", kind_free_text="rapidcheck C++ harnesses linked against the ASan+UBSan library built from /repo by its own CMake"),
        dict(name="fuzz", path="/verif/harness", kind_free_text="libFuzzer targets (clang++ -fsanitize=fuzzer,address,undefined) with oracles inside the target"),
        dict(name="hyp", path="/verif/py", kind_free_text="Hypothesis scenarios executed by child runner executables built from /repo"),
    ],
    notes="Every check is generated-input search against an explicit oracle (DESIGN.md). ./check <ID> <tier> rebuilds from /repo's working tree (content-hashed cache in /verif/build). "
    "Known findings and repaired defects: /verif/known_findings.json (never written at run time); minimal failing cases replayed on every run: /verif/regressions/<ID>/. "
    "Sensitivity material: /verif/seeded/<id>/ (changes written by independent sub-agents, each with patch.diff, demonstration, meta.json), /verif/tools/mutants/ (hand-made mutants), "
    "tools/seed_matrix.sh, tools/run_mutants.py. tools/run_all.sh <tier> runs all checks on /repo and validates the evidence files. VERIF_SEED selects the generator seed (default 1).",
)

PROPS["C17"].update(
    engine="rc",
    technique="property-based testing (rapidcheck): generated call sequences vs a five-list reference model, checked after every call",
    level_text="Generated search: 60 000 (quick) / 1.6 M (thorough) call sequences, each checked after every call for identity of handlers() and for execution order against an independent model; failures shrink to a minimal call sequence. Not a proof: sequences longer than ~80 calls and handler objects shared between calls are not explored.",
    level_note="Trusted: the five-list model in harness/rc_sorted.cpp; g++/ASan build; null arguments modelled as no-ops.",
)

PROPS["C01"] = dict(
    harness="rc_pipeline",
    builds=[dict(harness="rc_pipeline")],
    engine="rc",
    level="exploration",
    quick=dict(cases=10000, shards=6, max_size=100, timeout=900),
    thorough=dict(cases=40000, shards=16, max_size=200, timeout=3000),
    rule="case = recursively generated handler tree (attribute handlers, function filters, formatters incl. empty/null output, "
    "generic function handlers with set/remove/format/unformat programs, recording sinks, SeqNumberAttr, DuplicateFilter, null entries "
    "via initializer lists and via append/<<, shared references to earlier nodes, scoped/unscoped nested pipelines to depth 4) built "
    "with the raw Pipeline API or the SimplePipeline fluent API, x 1..8 messages. Non-trivial = depth >= 2 AND a handler rejected a "
    "message with handlers after it AND a sink ran after a scoped sub-pipeline whose exit restored changed state; distinct = canonical JSON.",
    assumptions=[
        "cycles (a pipeline containing itself) are not generated",
        "a formatter returning a null QString leaves the message unformatted (the stated mechanism)",
    ],
    floors={"depth>=2": 0.3, "reject_with_handlers_after": 0.2, "sink_after_scoped_restore": 0.05},
    technique="property-based testing (rapidcheck): generated handler trees and message sequences vs an independent sequential interpreter",
    level_text="Generated search over handler trees x message sequences; every delivery (sink identity, text, attributes, raw text) and the final message state are compared with an independent interpreter written from the property text. Failing trees shrink to a minimal tree. Not a proof; trees deeper than 4 or wider than ~12 per pipeline are not explored.",
    level_note="Trusted: the interpreter in harness/rc_pipeline.cpp (Model); Qt containers for attribute maps; g++/ASan build.",
)

PROPS["C16"] = dict(
    harness="rc_filters",
    builds=[dict(harness="rc_filters")],
    engine="rc",
    level="exploration",
    quick=dict(cases=6000, shards=6, max_size=100, timeout=900),
    thorough=dict(cases=50000, shards=16, max_size=200, timeout=3000),
    rule="case = pool of 1..5 texts (empty, null, case/whitespace/normalisation variants, texts around the regexp menu, generated Unicode) "
    "and a sequence of 1..200 messages drawn from it with runs, types uniform, 30% carrying a formatted text different from the raw text; "
    "on each sequence: LevelFilter x 5 thresholds, DuplicateFilter alone / behind a dropping filter / shared by two scoped sub-pipelines "
    "together with a shared SeqNumberAttr, RegExpFilter for one of 13 menu expressions (incl. the documented negative look-ahead and the "
    "CaseInsensitive option), SeqNumberAttr with a custom name. The 5x5 level table is enumerated exhaustively on every run. "
    "Non-trivial = a run after a different text AND a message dropped by the earlier filter between two equal texts AND the shared "
    "handlers invoked from both sub-pipelines; distinct = canonical JSON.",
    assumptions=[
        "regexp predicates are hand-written per menu entry (no regex engine in the oracle); PCRE semantics assumed: '$' also matches before a final line feed, '.' does not match a line feed, \\b uses ASCII word characters",
    ],
    floors={"run_after_different_text": 0.3, "dropped_message_between_equal_texts": 0.15, "shared_handlers_invoked_from_both_pipelines": 0.3},
    technique="property-based testing (rapidcheck): generated message sequences vs reference automata; exhaustive 5x5 level table",
    level_text="Generated search over message sequences against reference automata written from the property text; level table exhaustive. Not a proof for arbitrary regular expressions: the regexp filter is checked for a fixed menu of 13 expressions against arbitrary texts.",
    level_note="Trusted: reference automata and per-expression predicates in harness/rc_filters.cpp.",
)

PROPS["C15"] = dict(
    harness="rc_catfilter",
    builds=[dict(harness="rc_catfilter"), dict(kind="fn", fn=lambda: __import__("vfuzz").build_target("catdiff"))],
    fuzz_extra=dict(target="catdiff", quick=dict(runs=120000), thorough=dict(secs=300, jobs=8)),
    engine="rc",
    level="exploration",
    quick=dict(cases=15000, shards=2, max_size=100, timeout=900),
    thorough=dict(cases=200000, shards=16, max_size=200, timeout=3000),
    rule="case = rule text of 0..12 (24 thorough) lines joined by mixed ';' / newline separators (empty lines, surrounding whitespace, CR), "
    "each line a rule whose pattern is derived from the probed category (exact, prefix*, *suffix, mid*dle, *infix*, two stars, near misses, "
    "'.' for a letter) or drawn from an alphabet with regex metacharacters and non-ASCII letters, optional .debug/.info/.warning/.critical "
    "(and the non-suffixes .fatal/.Debug), '=' or '==' or two '=', or a garbage line; probed with a category over 'ab.x' plus metacharacters, "
    "for all five types. Non-trivial = two matching rules with different verdicts, or a regex metacharacter in a matching rule, or a garbage "
    "line between well-formed rules with a non-default verdict; distinct = canonical JSON of (rules, category).",
    assumptions=[
        "probed categories contain no line breaks",
        "whitespace = ASCII white space (space, TAB, CR, LF, VT, FF)",
        "a rule 'network.*' does not match category 'network' (the property's glob reading wins over the sentence in docs/api/filters.md)",
    ],
    floors={"conflicting_matching_rules": 0.1, "metachar_in_matching_rule": 0.1, "non_default_verdict": 0.2},
    technique="property-based testing (rapidcheck): generated rule lists x near-miss categories vs a hand-written glob evaluator (differential), QLoggingCategory as second opinion on Qt's subset",
    level_text="Generated differential search: the filter's verdict for every (rule list, category, type) generated is compared with an independent parser + glob matcher that uses no regular expressions; on the subset Qt supports the reference itself is cross-checked against QLoggingCategory. Not a proof.",
    level_note="Trusted: harness/common/refglob.h. Disagreements between the reference and QLoggingCategory are reported as warnings (they do not involve the library).",
)

PROPS["C13"] = dict(
    harness="rc_json",
    builds=[dict(harness="rc_json")],
    engine="rc",
    level="exploration",
    quick=dict(cases=10000, shards=2, max_size=100, timeout=900),
    thorough=dict(cases=100000, shards=16, max_size=200, timeout=3000),
    rule="case = message (type, text over well-formed Unicode classes ascii/bmp/astral/zero-width/control/pattern-syntax/json-syntax incl. "
    "null and up to 400 characters, category/file/function printable ASCII or null pointer, any int line) + 0..8 custom attributes with "
    "names over the same classes (never a built-in name, unique) and values string/int/qlonglong/qulonglong (|n|<=2^53)/finite double/bool/"
    "invalid/list/map/hash nested to depth 3, compact or indented. Non-trivial = a control character, quote/backslash/slash or astral "
    "character occurs in a text, name or value, or a nested container is present; distinct = canonical JSON.",
    assumptions=[
        "line break = LF or CR; raw U+2028/U+2029/U+0085 are legal JSON and only counted",
        "time and threadId: presence is required, their encoding is not (informational counter time_round_trips)",
        "null source-location pointers are recovered as empty strings",
    ],
    floors={"class_control": 0.1, "class_astral": 0.1, "nested_container": 0.1, "compact": 0.3},
    technique="property-based testing (rapidcheck): generated messages/attribute trees, output parsed by an independent strict RFC 8259 parser and compared field by field (round trip)",
    level_text="Generated round-trip search: every output is parsed by a strict parser written for this purpose (not Qt) and all fields are compared with the inputs. Not a proof; values are bounded to depth 3 and strings to 400 characters.",
    level_note="Trusted: harness/common/minijson.h and jsonval.h.",
)

PROPS["C18"] = dict(
    harness="rc_sentry",
    builds=[dict(harness="rc_sentry")],
    engine="rc",
    env={"TZ": "Asia/Kathmandu"},
    level="exploration",
    quick=dict(cases=8000, shards=2, max_size=100, timeout=900),
    thorough=dict(cases=60000, shards=16, max_size=200, timeout=3000),
    rule="case = message (5 types; text over all Unicode classes incl. null, 30% of length 95..105 units with astral characters around unit 100; "
    "category null/\"\"/\"default\"/printable ASCII; file/function printable ASCII or null) + 0..9 attributes mixing the eight routed names "
    "(string values), the extra-slot names line/file/thread_id/app_name, and arbitrary names with string/number/bool/list/map values; "
    "SDK name/version from all classes. Every event is formatted twice (fresh id) and all ids of the run must be pairwise distinct. "
    "The process runs with TZ=Asia/Kathmandu (+05:45) so UTC is distinguishable from local time. Non-trivial = a routed and an arbitrary "
    "attribute together, or a text around 100 units with astral characters; distinct = canonical JSON.",
    assumptions=[
        "'first 100 characters' accepted as 100 UTF-16 units (a split surrogate may be dropped or become U+FFFD) or as 100 code points",
        "routed attribute names carry string values (what AppInfoAttrs/SysInfoAttrs/HostInfoAttrs produce)",
        "timestamp may carry fractional seconds; designator Z or +00:00",
        "sdk, culprit, platform, contexts.runtime, tags.qt_version only need to keep the JSON valid",
    ],
    floors={"routed_and_arbitrary_attribute": 0.1, "text_around_100_units_with_astral": 0.15},
    technique="property-based testing (rapidcheck): generated messages/attribute sets, event parsed by an independent strict JSON parser, field obligations from the statement; id uniqueness over the run",
    level_text="Generated search with field-by-field obligations checked on an independently parsed event; id uniqueness over all events of a run (16k quick, 1.9M thorough). Not a proof.",
    level_note="Trusted: harness/common/minijson.h; obligations in harness/rc_sentry.cpp.",
)

PROPS["C12"] = dict(
    harness="rc_pattern",
    builds=[dict(harness="rc_pattern"), dict(kind="fn", fn=lambda: __import__("vfuzz").build_target("patdiff"))],
    fuzz_extra=dict(target="patdiff", quick=dict(runs=120000), thorough=dict(secs=300, jobs=8)),
    engine="rc",
    env={"TZ": "Asia/Kathmandu"},  # +05:45: local time is distinguishable from UTC (%{time} is the message's LOCAL time)
    level="exploration",
    quick=dict(cases=15000, shards=2, max_size=100, timeout=900),
    thorough=dict(cases=200000, shards=16, max_size=200, timeout=3000),
    rule="case = pattern generated from the documented grammar (literal pieces over all Unicode classes, %%, lone %, unterminated %{, every "
    "documented placeholder incl. shortfile BASE / time FORMAT / time process|boot, custom attributes name / name? / name?N / name?N,M / name?,M, "
    "unknown placeholders, %{if-TYPE}..%{endif}, format specs [fill][<^>]width[!] with widths around the content length, a few malformed specs) "
    "x message (5 types, text over all classes incl. U+200B, category/file/function from printable-ASCII menus, line) x attribute map "
    "(present/absent per referenced name; string/int/bool). Non-trivial = >= 3 tokens incl. a spec'd one AND (a conditional or a missing "
    "optional attribute) AND a non-ASCII-printable value class used AND graded exact or bounded; distinct = canonical JSON.",
    assumptions=[
        "fill is one UTF-16 code unit; width <= 40 here (C14 owns large widths)",
        "a pattern without any token (empty, or only conditional markers) may yield the message or the empty string",
        "%{time} accepted with or without milliseconds; %{time process|boot} only checked to be <digits>.<3 digits>",
        "%{func} value obtained from a separate %{func}-only formatter (composition is checked, the cleanup heuristics are not)",
        "nested or unknown %{if-..} are skipped (counted), removal windows beyond the adjacent literal are checked with bounded-deletion obligations",
    ],
    floors={"grade_exact": 0.5, "missing_optional_attribute": 0.1, "has_conditional": 0.1, "has_spec": 0.3},
    technique="property-based testing (rapidcheck): grammar-generated patterns x messages vs an independent reference formatter (differential), exact on the documented core, bounded-deletion obligations elsewhere",
    level_text="Generated differential search against a reference implementation of the documented mini-language written from the docs; exact equality wherever the documentation defines the output. Not a proof.",
    level_note="Trusted: harness/common/refpattern.h (its reading of docs/api/formatters.md is stated in DESIGN.md section 3, C12).",
)

_ROT_COMMON = dict(
    harness="rc_rot",
    extra_sources=("common/shim.cpp",),
    builds=[dict(harness="rc_rot", extra_sources=("common/shim.cpp",))],
    engine="rc",
    level="exploration",
    quick=dict(cases=1500, shards=8, max_size=100, timeout=1200),
    thorough=dict(cases=15000, shards=16, max_size=200, timeout=3400),
)
_ROT_DOMAIN = (
    "case = configuration (size limit L in {0,1,2,7,9,10,11,17,30,64,200}, file-count limit N in {-1,0,1,2,3,4,12}, options subset of "
    "{startup, daily, compression}, file name from {app.log, applog, a+b.log, app.v1.log, 'app (1).log', x.y.txt, .app.log (hidden), srv[1].log, open[.log, "
    "a*b?.log, app.{x}.log, a\\d.log, \u00e9t\u00e9.log} (regex- and glob-special characters, non-ASCII), file-timestamp granularity "
    "exact/1ms/1s/2s, time zone from {UTC, Asia/Tokyo, America/Los_Angeles, Pacific/Kiritimati, Pacific/Pago_Pago, Asia/Kolkata, Europe/Berlin, "
    "Australia/Lord_Howe, America/St_Johns}, start day ordinary / a DST switch / 31 Dec / 29 Feb, start time incl. just before local midnight) + history of 1..60 (120 thorough) operations: write (record of 0..40 bytes, sizes "
    "steered to L-3..L+2 and over-limit, multi-byte UTF-8 incl. U+E000..U+FFFF, embedded newline / CR / CRLF / TAB; every write is flushed so that it can be observed), advance the virtual clock (ms..s, to "
    "around local midnight, to around UTC midnight, 1..40 days), restart the sink, flush, plant one of 12 look-alike foreign files; the directory is read back after every "
    "flushed operation (gzip through zlib's decoder) and file mtimes follow the virtual clock. "
)
_ROT_ASSUME = [
    "virtual wall clock only moves forward; a message is created and written at the same virtual instant",
    "L, N and options stay fixed across the restarts of one history",
    "process locale is UTF-8 (C.UTF-8); the time zone is part of the generated configuration (TZ is set per case, days computed with libc)",
    "'calendar day' is accepted in either reading - local days or UTC days - as long as one reading fits the whole history",
    "files matching the sink's rotated-name scheme are produced only by the sink itself",
]

PROPS["C05"] = dict(_ROT_COMMON,
    rule=_ROT_DOMAIN + "Non-trivial (C05) = at least 2 rotations AND (a restart OR a compressed rotated file) in the history; distinct = canonical JSON.",
    assumptions=_ROT_ASSUME,
    floors={"rotations>=2": 0.3, "restart": 0.3, "compression": 0.1},
    technique="model-based property testing (rapidcheck): generated operation histories on a virtual clock; directory contents vs the written record stream after every operation",
    level_text="Generated histories checked after every operation: rotated files (inflated by zlib) + active file must be runs of whole consecutive records of the written stream, nothing duplicated/reordered/split, records only disappear with whole files and only when the limit permits. Not a proof; histories are bounded (<=120 operations) and file-system faults are C10's subject.",
    level_note="Trusted: the observation code in harness/common/rotmodel.h and check() in harness/rc_rot.cpp; zlib; the libc interposition shim for the clock.",
)
PROPS["C06"] = dict(_ROT_COMMON,
    rule=_ROT_DOMAIN + "Biased to N in 2..4 and 72% writes. Non-trivial (C06) = N>=2 with at least N+2 rotations and at least one removal (or, for N<=1, at least 2 rotation attempts); class counters record rotations inside one timestamp tick and indices crossing 9->10; distinct = canonical JSON.",
    assumptions=_ROT_ASSUME,
    floors={"retention_removed_files": 0.25, "foreign_files_planted": 0.2, "rotations_within_one_timestamp_tick": 0.1, "index_crossed_9_to_10": 0.02},
    technique="model-based property testing (rapidcheck): generated histories with coarse timestamp granularity and look-alike foreign files; count bound, contiguous-suffix and untouched-foreign-file invariants after every operation",
    level_text="Generated histories: after every write #files <= N, surviving records form one contiguous most-recent stretch, N<=0 never deletes, N=1 never rotates, planted look-alikes stay byte-identical. Not a proof.",
    level_note="Trusted: as C05. Timestamp ties are produced by stamping file mtimes with the virtual clock rounded down to the generated granularity.",
)
PROPS["C07"] = dict(_ROT_COMMON,
    rule=_ROT_DOMAIN + "Biased to L>0. Non-trivial (C07) = a record whose size is within +-2 bytes of the room left in the active file was written and at least one rotation happened; distinct = canonical JSON.",
    assumptions=_ROT_ASSUME,
    floors={"size_boundary_hit": 0.3, "multi_byte_record": 0.2, "over_limit_record": 0.1},
    technique="model-based property testing (rapidcheck): generated record sizes around the limit; per-file size/record-count invariant after every operation",
    level_text="Generated histories: every file (rotated content before compression, or active) is <= L bytes or a single record; records never straddle files. Not a proof.",
    level_note="Trusted: as C05.",
)
PROPS["C08"] = dict(_ROT_COMMON,
    rule=_ROT_DOMAIN + "Compression always on; 12% of writes are large records (8 KiB-1 .. 256 KiB+1, 1 MiB+1; 3-4 MiB in thorough) of four content classes (repetitive, random printable, binary-looking, mostly empty lines); 3% of the cases are 2..4 compressing sinks (own log, directory and thread) rotating at the same moments, each checked with the sequential oracle. Non-trivial (C08) = at least one validated .gz AND (content > 8 KiB or multi-byte records or >= 3 rotations); distinct = canonical JSON.",
    assumptions=_ROT_ASSUME + ["gzip validity = RFC 1952 header fields + zlib gzip-mode inflate consuming the whole file + own CRC-32/ISIZE comparison"],
    floors={"compression": 0.5, "gz_content>8KiB": 0.05},
    technique="model-based property testing (rapidcheck): generated contents and histories; every *.gz decoded by zlib's gzip decoder and compared with the records expected in that file (round trip)",
    level_text="Generated histories with compression: every .gz must be exactly one valid gzip member whose inflated bytes are the records the rotated file held. Not a proof; content sizes up to 256 KiB (quick) / 1 MiB (thorough).",
    level_note="Trusted: zlib as independent gzip implementation; rotmodel.h.",
)
PROPS["C09"] = dict(_ROT_COMMON,
    rule=_ROT_DOMAIN + "Biased to daily rotation and day changes. Non-trivial (C09) = daily with a day change between two writes and a rotation (or, without daily, >= 2 rotations and a restart); class counters: restart after a day change, removal before a later rotation on the same date; distinct = canonical JSON.",
    assumptions=_ROT_ASSUME,
    floors={"day_change_with_data": 0.3, "restart_after_day_change": 0.1},
    technique="model-based property testing (rapidcheck): generated histories with day changes, restarts and retention on a virtual clock; per-file day and name-uniqueness invariants over the whole history",
    level_text="Generated histories: with daily rotation every file holds one day and rotated names carry it; no rotated name is ever seen with two contents; indices per date only increase. Not a proof.",
    level_note="Trusted: as C05; the virtual clock shim and mtime stamping stand in for the kernel.",
)

PROPS["C10"] = dict(
    harness="rc_crash",
    extra_sources=("common/shim.cpp",),
    builds=[dict(harness="rc_crash", extra_sources=("common/shim.cpp",))],
    engine="rc",
    level="fault_enumeration",
    quick=dict(cases=14, shards=16, max_size=100, timeout=1500),
    thorough=dict(cases=100, shards=16, max_size=100, timeout=3400),
    rule="scenario = configuration (L in {0,8,12,20,40}, N in {-1,0,2,3,4}, options, file name) + prefix history (writes, day changes, restarts) "
    "leaving a non-empty active file and 0..n rotated files + a triggering write on a fresh sink that rotates (size, day change or startup) + "
    "a tail of 1..6 records after a restart. For EVERY intercepted mutating call k=1..K of the triggering write (open for writing/creating, write, "
    "close, rename, renameat2, link, linkat, unlink, ftruncate, sendfile; K is learnt per scenario from a traced run) one child process crashes "
    "right before call k, and for every rename*/link*/unlink/creating-open call one child per errno in {EACCES, ENOSPC, EIO} (+EINVAL, ENOSYS for "
    "renameat2) sees that call fail; 'deep' scenarios also combine each failing renameat2 with every later crash point (a double fault, beyond the property: counted in double_fault_losses_informational, never a violation). evaluations = child "
    "process runs; distinct_nontrivial = distinct (scenario, call index, crash|errno) triples whose call lies inside the rotation (from the "
    "first rename to the reopen of the active file). exhaustive per scenario: all k of every generated scenario are executed.",
    exhaustive_note="exhaustive over the crash points and single failures of each generated scenario (not over scenarios)",
    assumptions=[
        "a crash is modelled as _exit() of the process right before a system call (kernel state = calls completed so far); no torn writes, no power loss / fsync semantics",
        "write() failures are not injected (the property lists rename/link/unlink/create)",
        "retention is a file-count policy: a record may be missing only when N>=2 and at least N-1 rotated files newer than it (or unreadable) exist",
        "records are unique lines 'r<index>....' so recoverability is decidable line by line",
    ],
    floors={"trigger_rotates": 0.7},
    technique="fault injection by enumeration under rapidcheck-generated scenarios: every intercepted system call of a rotating write is a crash point and (for rename/link/unlink/create) a failure point; recoverability oracle on the directory",
    level_text="For each generated scenario the crash points and single call failures of the rotating write are enumerated exhaustively (libc interposition, forked children); the directory must keep every previously flushed record in an intact file, also after a restart that writes more. Scenarios themselves are sampled, not enumerated.",
    level_note="Trusted: harness/common/shim.cpp (interposition of the calls libQt5Core imports), rotmodel.h (gzip check), the retention-conformity reading stated in the assumptions.",
)

PROPS["C20"] = dict(
    hyp="hyp_c20.py",
    builds=[],
    engine="hyp",
    level="exploration",
    quick=dict(cases=250, shards=4, max_size=100, timeout=900),
    thorough=dict(cases=400, shards=12, max_size=100, timeout=3000),
    rule="case = an edit of the scratch copy of the tree: a unique preprocessor line '#define VERIFMARK_<hex> 1' inserted at a generated "
    "(file under src/qtlogger, line position), or a unique comment token appended to an existing line; evaluated by running the tree's own "
    "tools/gen_qtlogger.h.py on the edited copy. Before the edits the base case runs once: byte comparison of the generator's output with the "
    "committed qtlogger.h plus an independent line-multiset oracle (every non-blank source line of every file exactly once in the header, nothing else). "
    "Thorough also edits every source file once (exhaustive over files). Non-trivial = every edit (it lands in a (file, line) pair); distinct = (file, line, kind).",
    assumptions=[
        "the deciding comparison for the tree under test is a single differential (base case); generated edits establish that the comparison is sensitive in every file and that the generator amalgamates it exactly once",
        "nothing is compiled: the property is about bytes",
    ],
    floors={"kind_insert": 0.3, "kind_append": 0.1},
    technique="property-based testing (Hypothesis): differential of committed header vs generator output, metamorphic marker edits at generated (file, line) positions, independent line-multiset containment oracle",
    level_text="Byte-for-byte differential of the committed header against the tree's generator on a scratch copy, an independent multiset oracle that does not use the generator, and generated marker edits (1 000 quick / 4 800 + all files thorough) each required to appear exactly once and to be removable again. Not a proof: it speaks about the current tree and the sampled edit positions.",
    level_note="Trusted: python3, the line filter in py/hyp_c20.py (mirrors the four textual substitutions the generator documents).",
)

import vfuzz  # noqa: E402

PROPS["C14"] = dict(
    run=vfuzz.fuzz_check,
    targets=["pattern", "func", "formatters", "catfilter", "regexp"],
    builds=[dict(kind="fn", fn=lambda: [vfuzz.build_target(t) for t in ("pattern", "func", "formatters", "catfilter", "regexp")])],
    engine="fuzz",
    level="exploration",
    quick=dict(runs=60000),
    thorough=dict(secs=600),
    empty_corpus_runs=300000,
    rule="evaluations = libFuzzer executions summed over five in-process targets (pattern+message+context+attributes -> PatternFormatter; "
    "arbitrary function signature -> %{func}/%{function} with a fuzzed format spec; Pretty/JSON/Sentry formatters with arbitrary bytes in text, "
    "file, function, category, attribute names and values, SDK strings; category-rule string <= 256 B x category <= 256 B x 5 types; regular-expression "
    "menu x arbitrary message). Strings are decoded as UTF-8 with replacement (well-formed), Latin-1, or raw UTF-16 units (lone surrogates). "
    "Oracle inside each target: ASan + UBSan (no recovery), library asserts, libFuzzer -timeout=25 (a timeout artifact is re-run 3x alone under 300 s "
    "and counts only if it never finishes), determinism (same object + same message twice, and a second object of the same pattern), and - for "
    "well-formed text - strict JSON validity of JSON/Sentry output and no CR/LF in compact JSON. distinct_nontrivial = inputs libFuzzer added to the "
    "corpus because they reached new coverage (new_units_added). Starting corpora: committed seeds lifted from tests/docs (corpus/), thorough also from an empty corpus.",
    assumptions=[
        "message types are the five valid QtMsgType values",
        "patterns containing a run of >= 6 ASCII digits are skipped and counted (skipped_wide_width): a width of 10^6+ is a resource request of the pattern",
        "only crash-/leak- artifacts and confirmed hangs count; oom-/slow-unit- are load noise",
        "-fsanitize=integer is not used (flags well-defined unsigned wrap-around in Qt's inline hashing)",
        "quick: max_len 4096; thorough: 64 KiB",
    ],
    technique="coverage-guided fuzzing (libFuzzer + ASan/UBSan) with structure-aware decoding (FuzzedDataProvider) and in-target oracles: sanitizers, termination, determinism, strict JSON validity",
    level_text="Coverage-guided fuzzing of every textual input of the formatters and filters, sanitizers and in-target semantic oracles; 300k executions quick, 10 min x 5 targets x 3 workers thorough plus an empty-corpus run. Absence of crashes on the explored inputs only.",
    level_note="Trusted: clang 14 sanitizer runtimes, libFuzzer, harness/fuzz_targets.cpp, minijson.h. The targets compile only formatters/*.cpp and filters/*.cpp (clang cannot compile the whole library, DESIGN.md 1.2).",
)

PROPS["C11"] = dict(
    hyp="hyp_c11.py",
    runners={"VERIF_RUNNER_FATAL": dict(kind="rc", harness="runner_fatal")},
    builds=[dict(kind="rc", harness="runner_fatal")],
    engine="hyp",
    level="exploration",
    quick=dict(cases=90, shards=8, max_size=100, timeout=1500),
    thorough=dict(cases=150, shards=16, max_size=100, timeout=3400),
    confirm_replays=0,
    rule="case = scenario executed by a child process that must die by SIGABRT: configuration style (fluent format+sendToFile / fluent with sibling sub-pipelines and the "
    "file sink in the last one / one-line configure(path,..,async=false) / INI file with async=false) x sink kind (plain FileSink, rotating by size L in {200,5000,20000,100000}, "
    "daily, on-startup; compression on/off) x 0..300 preceding messages with sizes from {0..60, 100..3000, 4000, 4096, 16 KiB-41..16 KiB+1 (QFile's write buffer), 40000} logged by "
    "the main thread and 0..3 worker threads (all calls returned before the fatal) x fatal raised from the main or a worker thread via qFatal / a category logger, fatal text size "
    "{0,10,200,16 KiB+5} x contention at the instant of the fatal (0..2 threads logging in a tight loop; a thread parked inside the pipeline for 300 ms) x with/without QCoreApplication. "
    "Non-trivial = at least one preceding message (so buffered, unflushed data exists when the fatal is raised unless the last message alone exceeded the buffer; class counters say how often); distinct = scenario fingerprint.",
    assumptions=[
        "retention is off (file-count limit 0) in every scenario: the property is about flushing, not about retention",
        "messages of the contending threads are concurrent with the fatal and are not required to be present; they must only be whole lines",
        "the child is run with ASAN handle_abort=0 so that abort() ends it by SIGABRT as in production",
    ],
    floors={"unflushed_tail_nonempty": 0.5, "rotating_sink": 0.3, "rotated_files_present": 0.1, "fatal_from_worker_thread": 0.2, "contention_at_fatal": 0.2},
    technique="property-based testing (Hypothesis) with process-death injection: generated logging scenarios run in a child that aborts on the fatal message; files read back and compared with the expected record sequence",
    level_text="Generated scenarios (720 quick / 2 400 thorough child processes) ending in a real abort(); the files left behind must hold every preceding message once, per thread in order, and the fatal message after them. Not a proof; the crash point is always the abort that follows the fatal message handler.",
    level_note="Trusted: harness/runner_fatal.cpp (scenario executor), the line decoder in py/hyp_c11.py, Python's gzip.",
)

PROPS["C04"] = dict(
    hyp="hyp_c04.py",
    runners={"VERIF_RUNNER_SHUTDOWN": dict(kind="rc", harness="runner_shutdown")},
    builds=[dict(kind="rc", harness="runner_shutdown")],
    engine="hyp",
    level="exploration",
    quick=dict(cases=90, shards=8, max_size=100, timeout=1700),
    thorough=dict(cases=300, shards=16, max_size=100, timeout=3400),
    confirm_replays=3,
    rule="case = shutdown scenario run in a child process: subject (Logger singleton / heap Logger / bare OwnThreadHandler<Pipeline>) x configuration (fluent handler+moveToOwnThread / "
    "one-line configure(path), async by default) x QCoreApplication (none / on main's stack / leaked on the heap) x an event loop that has or has not run (and re-entering async mode afterwards) x stop path "
    "(explicit resetOwnThread, destruction of the handler, exec()+quit() i.e. aboutToQuit, return from main without exec() so the singleton dies after QCoreApplication, exit() with a live application) x "
    "backlog 0..500 messages x sink delay {0, 0.2 ms, 5 ms} (backlog x delay capped at 1 s quick / 5 s thorough) x 0..3 producer threads logging while the stop runs x messages logged after the stop x 0..4 earlier "
    "move/reset cycles with traffic. Non-trivial = at least one accepted-but-undelivered message exists at the instant the stop begins (read from the journal); distinct = (stop, app, subject, config, loopRan, backlog class, delay, racers, cycles, after).",
    assumptions=[
        "producers never log into a handler object while it is being destroyed, and no thread runs during static destruction (both would be caller errors)",
        "exit paths (return from main, exit()) are exercised with the singleton, which is the object the library destroys at process exit",
        "bounded time = backlog x delay + 25 s; a child counts as hung only when that bound passes AND its journal has not grown for 10 s; a scenario is a violation when it hangs twice in up to six runs (a deadlock that needs a particular interleaving does not hang every time); slow-but-progressing children are inconclusive",
        "with the one-line configuration deliveries are read from the log file after the process ended (exactly once each)",
    ],
    floors={"backlog_at_stop>=1": 0.3, "racing_producers": 0.1, "exit_without_exec": 0.03, "cycles": 0.2},
    technique="property-based testing (Hypothesis) of shutdown histories executed in child processes; write(2) journal checked against exactly-once / drained-before-return / synchronous-fallback / termination invariants",
    level_text="Generated shutdown scenarios (720 quick / 4 800 thorough child processes) over every stop path named in the property; the journal must show every accepted message delivered exactly once, before the stop returns, later ones synchronously, and the process must end. Interleavings inside Qt's event delivery are sampled by the OS scheduler, not enumerated.",
    level_note="Trusted: harness/runner_shutdown.cpp, the journal analysis in py/hyp_c04.py; ASan in the child for use of a destroyed worker.",
)

PROPS["C02"] = dict(
    harness="rc_concurrent",
    builds=[dict(harness="rc_concurrent")],
    engine="rc",
    level="exploration",
    quick=dict(cases=80, shards=8, max_size=100, timeout=1500),
    thorough=dict(cases=320, shards=16, max_size=200, timeout=3400),
    confirm_replays=3,
    rule="case = schedule shape: subject (Logger installed as Qt message handler with producers using the qDebug/qInfo/qWarning/qCritical and qC* macros; bare "
    "OwnThreadHandler<Pipeline> in synchronous mode with producers calling process(); Logger with scoped sub-pipelines behind a level filter and a category filter so "
    "that messages qualify for a subset of the sinks; 'install': 50..400 rounds of installing a fresh Logger as message handler while 2..6 threads keep logging, every message must reach exactly one of the previously installed handler and the new logger's sink) x 2..32 producer threads x 1..200 messages each x pre-call delay (none/yield/1-200 us spin) x handler durations "
    "(first handler, middle, sink: 0..2 ms on every k-th message) x type and category mix. Pipeline under test: in-flight entry probe -> SeqNumberAttr -> recorder -> "
    "DuplicateFilter -> PrettyFormatter -> sinks -> exit probe; every parkEvery-th entry parks inside the pipeline until another thread enters or 0.1-1.5 ms pass. "
    "Non-trivial = at least two producers' log calls overlapped in real time (steady-clock stamps around every call) AND a probe park happened while another call was pending; "
    "distinct = canonical JSON of the shape. The interleaving itself is the OS scheduler's.",
    assumptions=[
        "schedules are sampled, not enumerated; memory-model-level races that need a particular preemption inside QMutex are out of reach (DESIGN.md section 4)",
        "a failing shape is replayed 3 times; it is reported when it fails again at least once, otherwise recorded as inconclusive",
        "TSan is not used (uninstrumented libQt5Core)",
    ],
    floors={"calls_overlapped": 0.8, "park_during_overlap": 0.5, "subject_nested": 0.15, "subject_bare": 0.15, "subject_install": 0.05},
    technique="property-based testing (rapidcheck) over generated schedule shapes with a parked in-flight probe forcing overlap; history invariants (exactly-once per qualifying sink, max in-flight 1, per-thread order, consecutive sequence numbers, consistent thread table)",
    level_text="Generated schedule shapes run with real threads; the recorded history must satisfy exactly-once per qualifying sink, mutual exclusion (parked probe), per-thread order, consecutive sequence numbers and a consistent PrettyFormatter thread table; ASan/UBSan on. Exploration of schedules, not enumeration.",
    level_note="Trusted: harness/rc_concurrent.cpp (probe, recorders); the OS scheduler for variety. Lock-scope mistakes are made visible by the parked probe, not by timing luck.",
)

PROPS["C03"] = dict(
    harness="rc_async",
    builds=[dict(harness="rc_async")],
    engine="rc",
    level="exploration",
    quick=dict(cases=500, shards=6, max_size=100, timeout=1500),
    thorough=dict(cases=4000, shards=16, max_size=200, timeout=3400),
    confirm_replays=3,
    rule="case = 1..6 producers x 1..60 (120 thorough) messages with generated type, text (all Unicode classes, null), line, and file/function/category each a heap C string that is "
    "overwritten and freed as soon as the call returns, or a null pointer; 0..3 attributes and a formatted text set on the caller's thread before the hand-off; gate (the sink blocks the "
    "worker until every producer has returned from all its calls) open/closed; sink delay {0, 50 us, 0.3 ms, 2 ms}; bursts or yields between calls. Subject 'bare': Pipeline[handler, "
    "OwnThreadHandler<Pipeline>[sink]] driven through process(); subject 'logger': a Logger installed as Qt message handler, moved to its own thread, driven through QMessageLogger. "
    "Non-trivial = bare subject, >= 2 producers, a null context pointer, mixed types, and (gate open or >= 8 messages queued when the gate opened); distinct = canonical JSON.",
    assumptions=[
        "null and empty source-location strings are identified after the hand-off (the copy re-homes them)",
        "with the 'logger' subject the timestamp is taken inside the library, so only type/text/line/file/function/category/thread id are compared there; NUL in a text is replaced (printf transport)",
        "a call that has not returned after 20 s with the sink blocked counts as blocking on the sink (calls take microseconds)",
        "cross-producer FIFO is required only for calls that did not overlap (global ticket before/after each call)",
    ],
    floors={"gate_closed": 0.3, "null_context_pointer": 0.5, "queue_depth>=8_at_gate_opening": 0.15, "producers>=2": 0.5},
    technique="property-based testing (rapidcheck): generated message contents and producer shapes; synchronous twin comparison, ticket-order FIFO sweep, thread-identity and non-blocking (gated sink) invariants; ASan for freed caller buffers",
    level_text="Generated contents and producer shapes against a live worker thread; every field the sink observes is compared with a twin recorded at call time, order with a ticket sweep, thread identity per handler call, and log calls must return while the sink is blocked. Schedules are sampled.",
    level_note="Trusted: harness/rc_async.cpp; ASan detects use of the caller's freed buffers.",
)

PROPS["C19"] = dict(
    hyp="hyp_c19.py",
    runners={"VERIF_RUNNER_CONFIG": dict(kind="rc", harness="runner_config")},
    builds=[dict(kind="rc", harness="runner_config")],
    engine="hyp",
    level="exploration",
    quick=dict(cases=500, shards=10, max_size=100, timeout=1700),
    thorough=dict(cases=2500, shards=16, max_size=100, timeout=3400),
    rule="case = one of: (ini) a subset of the INI keys filter_rules (1..4 ordered rules over the categories default/app.core/app.net/db with wildcards and type suffixes), regexp_filter (menu of 5), "
    "message_pattern (menu of 4 incl. type conditionals; absent = pretty layout), stdout, stdout_color, stderr, stderr_color, platform_std_log, path, max_file_size, max_file_count, rotate_on_startup, "
    "rotate_daily, compress_old_files, async - booleans in several spellings, written with QSettings, loaded through configureFromIniFile / configure(QSettings, group), default or custom group - plus 0..2 lines "
    "left in the log file by an earlier run; (oneline) configure(path, size, count, options, async) arguments; both with a stream of 1..40 messages through qDebug/qInfo/qWarning/qCritical and qC* macros "
    "over 4 categories; the child's stdout, stderr and log directory are compared with what the keys prescribe (each passing message once per configured output, in order, formatted by the pattern or recognised "
    "as the pretty layout; file = rotated files in order (gunzipped) + active, count/size/compression/startup rotation as configured; one-line: file lines = console lines minus ESC[..m). (history) 1..14 operations "
    "from install(logger A/B), foreign qInstallMessageHandler F1..F3, restore, probe, observed after every operation (installed handler read back, probe message receiver). Non-trivial (config) = at least two "
    "outputs configured and a message filtered out (ini) / a file and >= 2 messages (oneline); (history) >= 2 installs and a foreign handler on top at restore time or two cycles; distinct = canonical case summary.",
    assumptions=[
        "stdout/stderr are pipes (colour 'auto' is off) or, in about a third of the INI cases, pseudo-terminals (colour 'auto' is on: the coloured outputs must wrap each line in the documented prefix/reset)",
        "restore after install -> foreign -> install may reinstate either the original or that foreign handler (property text and mechanism differ there, DESIGN.md C19); exact everywhere else",
        "rotate_daily is only exercised, not observed (no clock control in the child); deep rotation semantics are C05-C09's subject, here only the wiring of the keys is observed",
        "boolean spellings: true/false/1/0 (what QVariant::toBool accepts)",
    ],
    floors={"mode_ini": 0.2, "mode_oneline": 0.08, "mode_history": 0.15, "history_two_installs": 0.08, "file_output": 0.2, "coloured_console_line_expected": 0.03},
    technique="property-based testing (Hypothesis): generated configurations and message streams executed end to end in a child process and compared with outputs composed from independent oracles (glob rules, regexp predicates, pattern renderers); model-based testing of install/restore histories",
    level_text="Generated INI key sets / configure() arguments with message streams, executed end to end (5 000 quick / 40 000 thorough child processes), every output compared with the composed expectation; install/restore histories against a handler model after every operation. Not a proof; pattern/regexp/rule menus are small on purpose (their own semantics are C12/C15/C16).",
    level_note="Trusted: harness/runner_config.cpp, the oracles in py/hyp_c19.py (glob matcher, renderers, file reader).",
)
