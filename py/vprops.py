"""Per-property configuration of the checks (rules, bounds, assumptions)."""

PROPS = {}

PROPS["C17"] = dict(
    harness="rc_sorted",
    builds=[dict(harness="rc_sorted")],
    level="exploration",
    quick=dict(cases=10000, shards=1, max_size=100, timeout=900),
    thorough=dict(cases=100000, shards=16, max_size=200, timeout=3000),
    rule="case = sequence of 0..40 (max_size 100; 0..80 thorough) typed insert/clear calls on a fresh SortedPipeline or "
    "SimplePipeline, every inserted handler a distinct recording object; identity of handlers() and execution order are "
    "compared with five insertion-ordered lists after EVERY call. Non-trivial = the sequence inserts a lower-ranked class "
    "after a higher-ranked one AND holds two handlers of one class at some point; distinct = canonical JSON of the sequence.",
    assumptions=[
        "setFormatter(nullptr)/append*(nullptr) are modelled as no-ops (that is what every typed call does with a null pointer)",
        "ASan+UBSan build of library and harness (g++)",
    ],
    floors={"lower_class_after_higher": 0.3, "two_of_one_class": 0.3},
)

MANIFEST_META = dict(
    pending_reason="not claimed yet: the check described in DESIGN.md section 3 is still under construction",
    hooks=dict(
        guard="QTLOGGER_VERIF",
        enable="no source hooks exist: the harnesses interpose libc (clock, file system calls) from their own executables, see DESIGN.md 1.4",
        baseline_off_cmd="/verif/tools/baseline.sh",
        source_commits=[],
        add_only=True,
    ),
    engines=[
        dict(name="rc", path="/verif/harness", kind_free_text="rapidcheck C++ harnesses linked against the ASan+UBSan library built from /repo by its own CMake"),
        dict(name="fuzz", path="/verif/harness", kind_free_text="libFuzzer targets (clang++ -fsanitize=fuzzer,address,undefined) with oracles inside the target"),
        dict(name="hyp", path="/verif/py", kind_free_text="Hypothesis scenarios executed by child runner executables built from /repo"),
    ],
    notes="Every check is generated-input search against an explicit oracle (DESIGN.md). ./check <ID> <tier> rebuilds from /repo's working tree (content-hashed cache in /verif/build).",
)

PROPS["C17"].update(
    engine="rc",
    technique="property-based testing (rapidcheck): generated call sequences vs a five-list reference model, checked after every call",
    level_text="Generated search: 10 000 (quick) / 1.6 M (thorough) call sequences, each checked after every call for identity of handlers() and for execution order against an independent model; failures shrink to a minimal call sequence. Not a proof: sequences longer than ~80 calls and handler objects shared between calls are not explored.",
    level_note="Trusted: the five-list model in harness/rc_sorted.cpp; g++/ASan build; null arguments modelled as no-ops.",
)
