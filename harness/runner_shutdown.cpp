// C04 runner: asynchronous logging is started, loaded and stopped as the scenario says; everything observable is
// written to a journal with write(2) on an O_APPEND descriptor (survives a kill). The driver is py/hyp_c04.py.
//
// usage: runner_shutdown <scenario.json>
// scenario: { journal, dir, subject: singleton|local|bare, config: fluent|oneline, app: none|stack|heap, loopRan: bool,
//             stop: reset|destroy|quit|exit_return|exit_call, backlog, delayUs, racers, racerMsgs, after, cycles, cycleMsgs }
// journal lines:  "B <id> <tid>" before a log call, "A <id>" after it returned, "D <id> <tid>" from the sink,
//                 "S" stop begins, "E" stop returned, "X" subject destroyed, "Z" end of main
#include <QCoreApplication>
#include <QFile>
#include <QJsonDocument>
#include <QJsonObject>
#include <QThread>
#include <QTimer>

#include <atomic>
#include <chrono>
#include <thread>
#include <vector>

#include <fcntl.h>
#include <sys/resource.h>
#include <sys/syscall.h>
#include <unistd.h>

#include "qtlogger/qtlogger.h"

using namespace QtLogger;

static int g_jfd = -1;
static int g_delayUs = 0;
static std::atomic<int> g_nextId { 0 };
static std::atomic<int> g_stallId { -1 }; // delivering this message takes g_stallMs (a sink that stalls: slow disk, network)
static int g_stallMs = 0;

static long tid() { return syscall(SYS_gettid); }
static void jot(const char *fmt, long a = 0, long b = 0)
{
    char buf[96];
    int n = snprintf(buf, sizeof buf, fmt, a, b);
    if (write(g_jfd, buf, size_t(n)) < 0) { }
}

static std::atomic<int> g_delivered { 0 }, g_leaving { 0 }, g_armedId { -1 };
static int g_armedIdle = 0;
static bool sinkFn(LogMessage &m)
{
    if (g_delayUs > 0) usleep(useconds_t(g_delayUs));
    const QString t = m.message();
    const int p = t.indexOf(QLatin1String("id="));
    if (p >= 0 && g_stallMs > 0 && t.mid(p + 3).toLong() == g_stallId.load()) usleep(useconds_t(g_stallMs) * 1000);
    if (p < 0) {
        // not one of ours: a diagnostic Qt itself emitted through the installed handler
        QByteArray w = "W " + t.toLatin1().replace('\n', ' ') + "\n";
        if (write(g_jfd, w.constData(), size_t(w.size())) < 0) { }
        return true;
    }
    const long id = t.mid(p + 3).toLong();
    jot("D %ld %ld\n", id, tid());
    g_delivered++;
    if (id == g_armedId.load()) { // see alignStop in main()
        g_leaving = 1;
        for (volatile int i = 0; i < g_armedIdle; ++i) { }
    }
    return true;
}

struct Subject
{
    QString kind;
    Logger *logger = nullptr;                       // singleton or local
    OwnThreadHandler<Pipeline> *bare = nullptr;
    void log()
    {
        const int id = g_nextId++;
        jot("B %ld %ld\n", id, tid());
        if (bare) {
            QMessageLogContext ctx("f.cpp", 1, "fn", "cat");
            LogMessage m(QtInfoMsg, ctx, QStringLiteral("id=%1").arg(id));
            bare->process(m);
        } else {
            qInfo("id=%d", id);
        }
        jot("A %ld\n", id);
    }
    void toOwnThread() { if (bare) bare->moveToOwnThread(); else logger->moveToOwnThread(); }
    void reset() { if (bare) bare->resetOwnThread(); else logger->resetOwnThread(); }
};

int main(int argc, char **argv)
{
    struct rlimit rl = { 0, 0 };
    setrlimit(RLIMIT_CORE, &rl);
    if (argc < 2) return 64;
    QFile sf(QString::fromLocal8Bit(argv[1]));
    if (!sf.open(QIODevice::ReadOnly)) return 64;
    const QJsonObject sc = QJsonDocument::fromJson(sf.readAll()).object();
    g_jfd = open(sc["journal"].toString().toLocal8Bit().constData(), O_WRONLY | O_CREAT | O_APPEND, 0644);
    if (g_jfd < 0) return 64;
    const QString subject = sc["subject"].toString(), config = sc["config"].toString(), appKind = sc["app"].toString(), stop = sc["stop"].toString();

    // ---- earlier application objects (test binaries that build an application per test case, plug-in hosts): each one is created,
    // logging goes asynchronous, messages are queued behind a slow sink, and the application object is destroyed without exec() -
    // the stop then finishes the backlog itself. The scenario proper follows with a fresh application object (or none).
    Subject s;
    const QString subjectKind = subject;
    auto makeSubjectEarly = [&] {
        if (subjectKind == "bare") {
            s.bare = new OwnThreadHandler<Pipeline>();
            s.bare->append(FunctionHandlerPtr::create(sinkFn));
        } else {
            s.logger = subjectKind == "singleton" ? Logger::instance() : new Logger();
            s.logger->handler(sinkFn);
            s.logger->installMessageHandler();
        }
    };
    if (config != "oneline" && sc["appCycles"].toInt() > 0) {
        makeSubjectEarly();
        for (int a = 0; a < sc["appCycles"].toInt(); a++) {
            QCoreApplication *early = new QCoreApplication(argc, argv);
            s.toOwnThread();
            g_delayUs = 300;
            for (int i = 0; i < sc["appCycleMsgs"].toInt(); i++) s.log();
            delete early; // no exec(): the destroyed hook stops asynchronous logging with a backlog
            g_delayUs = 0;
            for (int i = 0; i < 2; i++) s.log(); // synchronous now
        }
    }

    QCoreApplication *heapApp = nullptr;
    // the stack application object lives in this optional-like buffer so that "return from main" destroys it before the statics
    struct StackApp { QCoreApplication app; StackApp(int &c, char **v) : app(c, v) { } };
    std::unique_ptr<StackApp> stackApp; // destroyed at the end of main, i.e. before static destruction
    if (appKind == "stack") stackApp.reset(new StackApp(argc, argv));
    else if (appKind == "heap") heapApp = new QCoreApplication(argc, argv); // leaked on purpose

    s.kind = subject;
    auto makeSubject = [&] {
        if (s.bare || s.logger) return;
        if (subject == "bare") {
            s.bare = new OwnThreadHandler<Pipeline>();
            s.bare->append(FunctionHandlerPtr::create(sinkFn));
        } else {
            s.logger = subject == "singleton" ? Logger::instance() : new Logger();
            if (config == "oneline") {
                // documented one-liner: pretty -> stderr -> file, asynchronous by default; deliveries are read from the file
            } else {
                s.logger->handler(sinkFn);
                s.logger->installMessageHandler();
            }
        }
    };
    makeSubject();

    // ---- earlier move/reset cycles with traffic in each phase ----
    g_delayUs = 0;
    const int cycleMsgs = sc["cycleMsgs"].toInt();
    // alignStop: the stop is issued at the very moment the worker finishes the last queued message. The sink raises a flag when
    // it is about to return from that message and then idles for 0..400 loop iterations; the stopping thread waits for the flag,
    // idles for 0..400 iterations as well and calls the stop. Both idle counts come from a generator seeded by the cycle number.
    const bool alignStop = sc["alignStop"].toBool();
    auto idle = [](int n) { for (volatile int i = 0; i < n; ++i) { } };
    unsigned lcg = 12345u;
    // cycleRacer: another thread keeps logging through all the cycles, so every one of the (many) stops and starts happens under
    // traffic: a log call that is inside process() while the stop runs must end up delivered (synchronously or by the worker)
    std::atomic<bool> cycleRacerStop { false };
    std::thread cycleRacer;
    if (config != "oneline" && sc["cycleRacer"].toBool() && !alignStop && sc["cycles"].toInt() > 0)
        cycleRacer = std::thread([&] {
            for (int i = 0; !cycleRacerStop.load(); i++) { s.log(); if (i % 16 == 15) std::this_thread::yield(); }
        });
    if (config != "oneline")
        for (int c = 0; c < sc["cycles"].toInt(); c++) {
            s.toOwnThread();
            if (alignStop) {
                for (int i = 0; i + 1 < cycleMsgs; i++) s.log();
                while (g_delivered.load() < g_nextId.load()) { } // worker thread is up and idle
                lcg = lcg * 1664525u + 1013904223u;
                g_armedIdle = int((lcg >> 16) % 400);
                g_leaving = 0;
                g_armedId = g_nextId.load();
                s.log();
                while (!g_leaving.load()) { }
                lcg = lcg * 1664525u + 1013904223u;
                idle(int((lcg >> 16) % 400));
                g_armedId = -1;
            } else {
                for (int i = 0; i < cycleMsgs; i++) s.log();
            }
            s.reset();
            for (int i = 0; i < cycleMsgs; i++) s.log();
        }

    if (cycleRacer.joinable()) { cycleRacerStop = true; cycleRacer.join(); }

    // ---- go asynchronous ----
    if (config == "oneline") s.logger->configure(sc["dir"].toString() + "/app.log"); // async = true is the default
    else s.toOwnThread();
    if (sc["loopRan"].toBool() && QCoreApplication::instance()) {
        QTimer::singleShot(5, QCoreApplication::instance(), &QCoreApplication::quit);
        QCoreApplication::exec(); // aboutToQuit stops async logging: an event loop has run and ended before the scenario's stop
        if (config != "oneline" && sc["reAsync"].toBool()) s.toOwnThread();
    }

    g_delayUs = sc["delayUs"].toInt();
    g_stallMs = sc["stallMs"].toInt();
    for (int i = 0; i < sc["backlog"].toInt(); i++) {
        if (i == sc["backlog"].toInt() - 1 && g_stallMs > 0) g_stallId = g_nextId.load(); // the last message of the backlog stalls
        s.log();
    }

    std::atomic<bool> go { false };
    std::vector<std::thread> racers;
    const int racerMsgs = sc["racerMsgs"].toInt();
    for (int r = 0; r < sc["racers"].toInt(); r++)
        racers.emplace_back([&] {
            while (!go) std::this_thread::yield();
            for (int i = 0; i < racerMsgs; i++) { s.log(); if (i % 4 == 3) usleep(100); }
        });
    auto joinRacers = [&] { for (auto &t : racers) t.join(); racers.clear(); };

    go = true;
    if (stop == "reset") {
        jot("S\n");
        s.reset();
        jot("E\n");
    } else if (stop == "destroy") {
        joinRacers(); // logging into an object while it is destroyed is the caller's bug, not a subject of the property
        jot("S\n");
        if (s.bare) { delete s.bare; s.bare = nullptr; } else { delete s.logger; s.logger = nullptr; }
        jot("X\n");
        jot("E\n");
    } else if (stop == "quit") {
        QTimer::singleShot(0, QCoreApplication::instance(), [] { jot("S\n"); QCoreApplication::quit(); });
        QCoreApplication::exec();
        jot("E\n");
    } else { // exit_return / exit_call: the stop is the destruction of the singleton (or nothing at all for leaked objects)
        joinRacers(); // no thread may run during static destruction
    }

    if (s.bare || s.logger)
        for (int i = 0; i < sc["after"].toInt(); i++) s.log();
    joinRacers();
    jot("Z\n");
    if (stop == "exit_call") exit(0);
    (void)heapApp;
    return 0;
}
