// C11 runner: configures the synchronous logger as the scenario says, logs the preceding messages, raises a
// fatal message and is expected to die by SIGABRT. The driver (py/hyp_c11.py) then reads the log directory.
//
// usage: runner_fatal <scenario.json>
// scenario: { dir, style: fluent|nested|oneline|ini, sink: plain|size|daily|startup, L, compress, pre: [[thread, size]...],
//             threads, fatalThread, fatalVia: qfatal|qcfatal|qfatal_cat, busy, slow, siblings, fatalSize }
#include <QCoreApplication>
#include <QDir>
#include <QFile>
#include <QJsonArray>
#include <QJsonDocument>
#include <QJsonObject>
#include <QLoggingCategory>
#include <QSettings>
#include <QThread>

#include <atomic>
#include <thread>
#include <vector>

#include <sys/resource.h>
#include <unistd.h>

#include "qtlogger/qtlogger.h"

Q_LOGGING_CATEGORY(lcApp, "app.core")
Q_LOGGING_CATEGORY(lcNet, "net")

// a destination in trouble: it takes messages but cannot deliver them right now, and says so when asked to flush
// (the documented extension point `bool flush() override`; docs/advanced.md)
class TroubledSink : public QtLogger::Sink
{
public:
    void send(const QtLogger::LogMessage &) override { }
    bool flush() override { return false; }
};

static QByteArray body(const QString &tag, int size)
{
    // unique tag + deterministic padding without spaces or line breaks
    QByteArray b = tag.toLatin1() + ":";
    static const char al[] = "abcdefghijklmnopqrstuvwxyz0123456789";
    unsigned x = 2166136261u;
    for (char c : tag.toLatin1()) x = (x ^ (unsigned char)c) * 16777619u;
    while (b.size() < size) {
        x = x * 1664525u + 1013904223u;
        b.append(al[(x >> 16) % 36]);
    }
    b.append(";end");
    return b;
}

int main(int argc, char **argv)
{
    struct rlimit rl = { 0, 0 };
    setrlimit(RLIMIT_CORE, &rl);
    if (argc < 2) return 64;
    QFile sf(QString::fromLocal8Bit(argv[1]));
    if (!sf.open(QIODevice::ReadOnly)) return 64;
    const QJsonObject sc = QJsonDocument::fromJson(sf.readAll()).object();
    const QString dir = sc["dir"].toString();
    const QString path = dir + "/app.log";
    const QString style = sc["style"].toString(), kind = sc["sink"].toString();
    const int L = sc["L"].toInt();
    QtLogger::RotatingFileSink::Options opt;
    if (kind == "daily") opt |= QtLogger::RotatingFileSink::RotationDaily;
    if (kind == "startup") opt |= QtLogger::RotatingFileSink::RotationOnStartup;
    if (kind != "plain" && sc["compress"].toBool()) opt |= QtLogger::RotatingFileSink::Compression;
    const int maxSize = kind == "size" ? L : 0;
    const QString pattern = QStringLiteral("%{type}|%{message}");

    QCoreApplication *app = sc["app"].toBool() ? new QCoreApplication(argc, argv) : nullptr;
    (void)app;

    const QString troubled = sc["troubled"].toString();
    std::atomic<bool> slowEntered { false };
    // the handler may be installed before the pipeline is filled (nothing logs yet): what counts at the fatal message is the
    // pipeline as it is then
    const bool installFirst = sc["installFirst"].toBool() && (style == "fluent" || style == "nested");
    if (installFirst) gQtLogger.installMessageHandler();
    if (style == "fluent") {
        if (sc["slow"].toBool())
            gQtLogger.filter([&](const QtLogger::LogMessage &m) {
                if (m.message().startsWith(QLatin1String("slow"))) { slowEntered = true; QThread::msleep(300); }
                return true;
            });
        gQtLogger.format(pattern);
        // a sink that reports a failing flush sits IN FRONT of the healthy file sink: a full volume ("/dev/full"), a custom sink
        if (troubled == "devfull") gQtLogger.sendToFile(QStringLiteral("/dev/full"));
        else if (troubled == "custom") gQtLogger << QtLogger::SinkPtr(new TroubledSink);
        gQtLogger.sendToFile(path, maxSize, 0, opt);
        if (!installFirst) gQtLogger.installMessageHandler();
    } else if (style == "nested") {
        // README-style layout: sibling sub-pipelines, the file sink lives in the last one
        for (int i = 0; i < sc["siblings"].toInt(); i++)
            gQtLogger.pipeline().filterLevel(QtWarningMsg).format(QStringLiteral("%{message}")).handler([](QtLogger::LogMessage &) { return true; }).end();
        if (troubled == "devfull") gQtLogger.pipeline().format(pattern).sendToFile(QStringLiteral("/dev/full")).end();
        else if (troubled == "custom") gQtLogger.pipeline() << QtLogger::SinkPtr(new TroubledSink);
        if (sc["netFile"].toBool()) // a per-category log file: the fatal message (another category) never reaches this sink
            gQtLogger.pipeline().filterCategory(QStringLiteral("*=false\nnet=true")).format(pattern).sendToFile(dir + "/../net.log").end();
        gQtLogger.pipeline().format(pattern).sendToFile(path, maxSize, 0, opt).end();
        if (!installFirst) gQtLogger.installMessageHandler();
    } else if (style == "oneline") {
        gQtLogger.configure(path, maxSize, 0, opt, /*async*/ false);
    } else { // ini
        const QString ini = dir + "/../logger.ini";
        {
            QSettings s(ini, QSettings::IniFormat);
            s.setValue("logger/message_pattern", pattern);
            s.setValue("logger/platform_std_log", false);
            if (sc["stderrFull"].toBool()) s.setValue("logger/stderr", true); // a console sink in front of the file sink
            s.setValue("logger/path", path);
            s.setValue("logger/max_file_size", kind == "size" ? L : 0);
            s.setValue("logger/max_file_count", 0);
            s.setValue("logger/rotate_on_startup", kind == "startup");
            s.setValue("logger/rotate_daily", kind == "daily");
            s.setValue("logger/compress_old_files", kind != "plain" && sc["compress"].toBool());
            s.setValue("logger/async", false);
            s.sync();
        }
        gQtLogger.configureFromIniFile(ini);
    }

    // one more file sink, added with the fluent API after the configuration proper (whatever its style) is complete
    if (sc["extraFile"].toBool())
        gQtLogger.pipeline().format(pattern).sendToFile(dir + "/../extra.log").end();

    // ---- preceding messages: every thread logs its own list in order; all calls have returned before the fatal ----
    const int threads = sc["threads"].toInt();
    std::vector<std::vector<std::pair<int, int>>> perThread(size_t(threads + 1));
    int idx = 0;
    for (auto pv : sc["pre"].toArray()) {
        QJsonArray p = pv.toArray();
        perThread[size_t(p[0].toInt())].push_back({ idx++, p[1].toInt() });
    }
    auto logList = [&](int t) {
        for (auto &m : perThread[size_t(t)]) {
            QByteArray b = body(QStringLiteral("m%1").arg(m.first), m.second);
            if (m.first % 5 == 1) qCInfo(lcNet, "%s", b.constData());
            else if (m.first % 3 == 0) qCInfo(lcApp, "%s", b.constData());
            else if (m.first % 3 == 1) qWarning("%s", b.constData());
            else qDebug("%s", b.constData());
        }
    };
    {
        std::vector<std::thread> ws;
        for (int t = 1; t <= threads; t++) ws.emplace_back(logList, t);
        logList(0);
        for (auto &w : ws) w.join();
    }

    // ---- contention at the instant of the fatal ----
    std::atomic<bool> stop { false };
    std::vector<std::thread> busy;
    for (int b = 0; b < sc["busy"].toInt(); b++)
        busy.emplace_back([&, b] {
            for (int i = 0; !stop; i++) qInfo("busy%d-%d:x;end", b, i);
        });
    std::thread slowThread;
    if (sc["slow"].toBool() && style == "fluent") {
        slowThread = std::thread([] { qInfo("slow:x;end"); });
        while (!slowEntered) QThread::usleep(200); // another thread is now inside the pipeline (holding the logger's lock)
    } else if (!busy.empty()) {
        QThread::msleep(5);
    }

    const QByteArray fb = body(QStringLiteral("FATAL"), sc["fatalSize"].toInt());
    const QString via = sc["fatalVia"].toString();
    auto die = [&] {
        if (via == "qcfatal") {
#if QT_VERSION >= QT_VERSION_CHECK(6, 5, 0)
            qCFatal(lcApp, "%s", fb.constData());
#else
            QMessageLogger(__FILE__, __LINE__, Q_FUNC_INFO, lcApp().categoryName()).fatal("%s", fb.constData());
#endif
        } else {
            qFatal("%s", fb.constData());
        }
    };
    const int ft = sc["fatalThread"].toInt();
    if (ft == 0) {
        die();
    } else {
        std::thread f(die);
        f.join();
    }
    // not reached when the fatal message aborts the process
    stop = true;
    for (auto &b : busy) b.join();
    if (slowThread.joinable()) slowThread.join();
    _exit(3);
}
