// C02 — concurrent logging through a synchronous logger: exactly-once, mutually exclusive, per-thread order,
// consecutive sequence numbers, consistent state of the stateful built-in handlers.
//
// Case: { subject: "logger"|"bare"|"nested", producers, perProducer, preDelay: 0|1|2 (none/yield/spin), spinUs,
//         firstUs, midUs, sinkUs (handler durations, applied to every slowEvery-th message), slowEvery, parkEvery, parkUs,
//         netShare (percent of messages in category "net"), types: bitmask of message types used }
// Oracle over the recorded history (see check() below). The schedule itself comes from the OS; what the case fixes is
// its shape. An in-flight probe at both ends of the pipeline parks inside the pipeline on every parkEvery-th entry and
// waits to be woken by *another thread entering*: with the lock in place nobody can, without it somebody does at once.
#include "common/gen.h"
#include <QCoreApplication>

#include "qtlogger/qtlogger.h"

#include <QLoggingCategory>

#include <atomic>
#include <chrono>
#include <condition_variable>
#include <mutex>
#include <thread>

using namespace QtLogger;
using namespace verif;

Q_LOGGING_CATEGORY(lcNet, "net")

namespace {

using Clock = std::chrono::steady_clock;
inline long long nowNs() { return std::chrono::duration_cast<std::chrono::nanoseconds>(Clock::now().time_since_epoch()).count(); }

struct Probe
{
    std::atomic<int> inflight { 0 };
    std::atomic<int> maxInflight { 0 };
    std::atomic<long> entries { 0 };
    std::atomic<long> parks { 0 };
    std::mutex m;
    std::condition_variable cv;
    long entered = 0; // guarded by m
    int parkEvery = 0, parkUs = 0;
    std::vector<std::pair<long long, long long>> parkSpans; // guarded by m

    void enter()
    {
        const int now = ++inflight;
        int mx = maxInflight.load();
        while (now > mx && !maxInflight.compare_exchange_weak(mx, now)) { }
        const long n = ++entries;
        {
            std::unique_lock<std::mutex> lk(m);
            entered++;
            cv.notify_all();
            if (parkEvery > 0 && n % parkEvery == 0) {
                parks++;
                const long mine = entered;
                const long long t0 = nowNs();
                cv.wait_for(lk, std::chrono::microseconds(parkUs), [&] { return entered != mine; });
                parkSpans.push_back({ t0, nowNs() });
                // seen by both sides when somebody walked in while we were parked
                const int cur = inflight.load();
                int mx2 = maxInflight.load();
                while (cur > mx2 && !maxInflight.compare_exchange_weak(mx2, cur)) { }
            }
        }
    }
    void leave() { --inflight; }
};

struct Delivery
{
    int producer, index, seq;
    QString formatted;
};

struct Recorder
{
    std::atomic_flag busy = ATOMIC_FLAG_INIT; // keeps the harness alive when the library's lock is broken
    std::vector<Delivery> got;
    void add(const LogMessage &m)
    {
        const QString t = m.message();
        int p = -1, i = -1;
        // text is "p<producer>-<index>"
        const int dash = t.indexOf(QChar('-'));
        if (t.startsWith(QChar('p')) && dash > 1) { p = t.mid(1, dash - 1).toInt(); i = t.mid(dash + 1).toInt(); }
        while (busy.test_and_set(std::memory_order_acquire)) { }
        got.push_back({ p, i, m.attribute(QStringLiteral("seq_number")).toInt(), m.formattedMessage() });
        busy.clear(std::memory_order_release);
    }
};

void spinFor(int us)
{
    if (us <= 0) return;
    const long long end = nowNs() + 1000LL * us;
    while (nowNs() < end) { }
}
void delayFor(int us)
{
    if (us <= 0) return;
    if (us >= 100) std::this_thread::sleep_for(std::chrono::microseconds(us));
    else spinFor(us);
}

QJsonObject generate()
{
    QJsonObject c;
    static const char *subjects[] = { "logger", "bare", "nested" };
    c["subject"] = chance(15) ? "install" : subjects[pick(0, 2)];
    c["rounds"] = 50 + sized(0, 350); // subject "install": fresh Logger installed under traffic, this many times
    c["wasAsync"] = chance(25) ? pick(1, 3) : 0; // subjects other than "install": the handler was moved to its own thread and back before the producers start
    c["gap"] = chance(50);            // ... some of the loggers go away without restoring the handler, and the threads log in the gap
    const int producers = chance(15) ? pick(17, 32) : pick(2, 16);
    c["producers"] = producers;
    c["perProducer"] = 1 + sized(0, chance(10) ? 199 : 40);
    c["preDelay"] = pick(0, 2);
    c["spinUs"] = pick(1, 200);
    static const int durs[] = { 0, 0, 0, 5, 30, 100, 400, 2000 };
    c["firstUs"] = durs[pick(0, 7)];
    c["midUs"] = durs[pick(0, 7)];
    c["sinkUs"] = durs[pick(0, 7)];
    c["slowEvery"] = pick(5, 60);
    c["parkEvery"] = pick(7, 40);
    c["parkUs"] = pick(100, 1500);
    c["netShare"] = pick(0, 100);
    c["types"] = pick(1, 15);
    // another Logger object (private, temporary; never installed) is created and destroyed while the producers log
    c["extraLogger"] = chance(25);
    if (chance(5)) {
        // convoy: every message takes 60-150 ms inside the pipeline and all producers arrive at once, so the last ones wait
        // for seconds at the logger's lock (a lock acquisition with a timeout would give up)
        c["producers"] = pick(10, 16);
        c["perProducer"] = pick(1, 2);
        c["preDelay"] = 0;
        c["sinkUs"] = pick(60, 150) * 1000;
        c["slowEvery"] = 1;
        c["firstUs"] = 0;
        c["midUs"] = 0;
        c["parkEvery"] = 0;
        c["convoy"] = true;
    }
    if (!c.contains("convoy") && c["subject"].toString() != "install" && chance(12)) {
        // hot: several producers call back to back, no handler takes any time, nobody parks - hand-over schemes ("the thread that
        // is inside also delivers what arrived meanwhile") lose their wake-ups here, where a slow sink would hide them
        c["producers"] = pick(3, 8);
        c["perProducer"] = pick(500, 2500);
        c["preDelay"] = 0;
        c["firstUs"] = 0;
        c["midUs"] = 0;
        c["sinkUs"] = 0;
        c["parkEvery"] = 0;
        c["extraLogger"] = false;
        c["hot"] = true;
        // a pipeline that costs less than making the message: the handler falls idle between two messages all the time, which is
        // when a hand-over scheme has to get its "nobody inside any more" right
        c["light"] = chance(60);
    }
    return c;
}

struct Span { long long b, e; int producer; };

// ---- subject "install": a Logger is installed as message handler while other threads are logging -------------------------
// Every message must reach exactly one of: the handler that was installed before (a counting foreign handler) or the new logger's
// sink. The producers are parked while the logger is restored and destroyed (logging into a dying object is the caller's error).
std::atomic<long> g_foreignDelivered { 0 };
void countingForeignHandler(QtMsgType, const QMessageLogContext &, const QString &) { g_foreignDelivered++; }

std::string runInstallRace(const QJsonObject &c)
{
    // the window of a broken install is a few instructions wide: a replay repeats the shape often enough to meet it again
    const int P = qMin(6, qMax(2, c["producers"].toInt())), rounds = getenv("VERIF_REPLAY") ? qMax(5000, c["rounds"].toInt()) : c["rounds"].toInt();
    g_foreignDelivered = 0;
    std::atomic<long> produced { 0 }, sinkDelivered { 0 }, gapProduced { 0 };
    std::atomic<bool> stop { false }, park { false }, gapMode { false };
    std::atomic<int> parked { 0 };
    const size_t nProducers = size_t(P);
    std::vector<std::atomic<long>> perProducer(nProducers), perProducerGap(nProducers);
    for (auto &x : perProducer) x = 0;
    for (auto &x : perProducerGap) x = 0;
    QtMessageHandler before = qInstallMessageHandler(countingForeignHandler);
    std::vector<std::thread> threads;
    for (int p = 0; p < P; p++)
        threads.emplace_back([&, p] {
            while (!stop) {
                if (park) {
                    parked++;
                    while (park && !stop) std::this_thread::yield();
                    parked--;
                    continue;
                }
                if (gapMode) { qInfo("g"); gapProduced++; perProducerGap[size_t(p)]++; std::this_thread::yield(); continue; }
                qInfo("x");
                produced++;
                perProducer[size_t(p)]++;
            }
        });
    auto sink = FunctionHandlerPtr::create([&](LogMessage &) { sinkDelivered++; return true; });
    auto parkAll = [&] { park = true; while (parked.load() < P) std::this_thread::yield(); };
    auto unparkAll = [&] { park = false; while (parked.load() > 0) std::this_thread::yield(); };
    std::string gapFailure;
    long gapRounds = 0;
    for (int r = 0; r < rounds && gapFailure.empty(); r++) {
        Logger *lg = new Logger();
        *lg << sink;
        lg->installMessageHandler();
        spinFor(r % 7 == 0 ? 30 : 2);
        parkAll();
        if (c["gap"].toBool() && r % 16 == 5) {
            // A logger that goes away WITHOUT restoring the previous handler: the library's handler stays installed with no active
            // logger, and what the threads log in that gap goes nowhere (no logger, no sink). Then a new logger is installed. From
            // the moment its installation has returned, every message of every thread - also of the threads that logged in the gap -
            // must reach the new logger's sink, exactly once, and nothing else.
            gapRounds++;
            delete lg;
            for (auto &x : perProducerGap) x = 0;
            gapMode = true;
            unparkAll();
            for (;;) { bool all = true; for (auto &x : perProducerGap) if (x.load() < 2) all = false; if (all) break; std::this_thread::yield(); }
            parkAll();
            gapMode = false;
            lg = new Logger();
            *lg << sink;
            lg->installMessageHandler();
            const long s0 = sinkDelivered.load(), f0 = g_foreignDelivered.load(), p0 = produced.load();
            for (auto &x : perProducer) x = 0;
            unparkAll();
            for (;;) { bool all = true; for (auto &x : perProducer) if (x.load() < 5) all = false; if (all) break; std::this_thread::yield(); }
            parkAll();
            const long ds = sinkDelivered.load() - s0, df = g_foreignDelivered.load() - f0, dp = produced.load() - p0;
            if (ds != dp || df != 0)
                gapFailure = "a logger was destroyed without restoring the handler, " + std::to_string(P) + " threads logged while no logger was active, then a new logger was installed: of the "
                        + std::to_string(dp) + " messages logged after its installation had returned " + std::to_string(ds) + " reached its sink and " + std::to_string(df)
                        + " the handler installed before the first logger (every one of them qualifies for the sink, exactly once)";
        }
        Logger::restorePreviousMessageHandler();
        delete lg;
        unparkAll();
    }
    count("install_rounds_with_a_gap_without_active_logger", gapRounds);
    count("messages_logged_while_no_logger_was_active", gapProduced.load());
    stop = true;
    for (auto &t : threads) t.join();
    qInstallMessageHandler(before);
    count("install_rounds", rounds);
    count("messages_during_install_rounds", produced.load());
    cls("subject_install");
    cls("calls_overlapped", true);
    cls("park_during_overlap", false);
    noteCase(c, sinkDelivered.load() > 0 && g_foreignDelivered.load() > 0);
    if (!gapFailure.empty()) return gapFailure;
    if (produced.load() != sinkDelivered.load() + g_foreignDelivered.load())
        return "installing a Logger under traffic: " + std::to_string(produced.load()) + " messages were logged, " + std::to_string(g_foreignDelivered.load())
                + " reached the previously installed handler and " + std::to_string(sinkDelivered.load()) + " the logger's sink: "
                + std::to_string(produced.load() - sinkDelivered.load() - g_foreignDelivered.load()) + " reached neither (or both)";
    return "";
}

std::string runOnce(const QJsonObject &c);

// a replay repeats the shape: whether a broken hand-over or lock shows in one execution of a schedule shape is up to the scheduler
std::string run(const QJsonObject &c)
{
    if (!getenv("VERIF_REPLAY")) return runOnce(c);
    // The search runs several harness processes side by side, so its threads are preempted all the time; a replay runs alone.
    // Spinning threads (one per core) give the replay the same oversubscribed machine, and the shape is repeated.
    std::atomic<bool> stopSpin { false };
    std::vector<std::thread> spinners;
    const unsigned cores = std::max(2u, std::thread::hardware_concurrency());
    for (unsigned i = 0; i < cores; i++)
        spinners.emplace_back([&] { while (!stopSpin) { for (volatile int k = 0; k < 20000; k++) { } if (nowNs() % 7 == 0) std::this_thread::yield(); } });
    std::string why;
    const int reps = c["hot"].toBool() ? 40 : 10;
    for (int i = 0; i < reps && why.empty(); i++) why = runOnce(c);
    stopSpin = true;
    for (auto &t : spinners) t.join();
    return why;
}

std::string runOnce(const QJsonObject &c)
{
    const QString subject = c["subject"].toString();
    if (subject == "install") return runInstallRace(c);
    const int P = c["producers"].toInt(), N = c["perProducer"].toInt();
    const int preDelay = c["preDelay"].toInt(), spinUs = c["spinUs"].toInt();
    const int firstUs = c["firstUs"].toInt(), midUs = c["midUs"].toInt(), sinkUs = c["sinkUs"].toInt(), slowEvery = qMax(1, c["slowEvery"].toInt());
    const int netShare = c["netShare"].toInt(), types = c["types"].toInt() ? c["types"].toInt() : 1;

    Probe probe;
    probe.parkEvery = c["parkEvery"].toInt();
    probe.parkUs = c["parkUs"].toInt();
    Recorder afterSeq, sinkAll, sinkWarn, sinkNet;
    std::atomic<long> handled { 0 };

    auto probeIn = FunctionHandlerPtr::create([&](LogMessage &) {
        probe.enter();
        if (++handled % slowEvery == 0) delayFor(firstUs);
        return true;
    });
    auto probeOut = FunctionHandlerPtr::create([&](LogMessage &) { probe.leave(); return true; });
    auto seq = SeqNumberAttrPtr::create();
    auto recSeq = FunctionHandlerPtr::create([&](LogMessage &m) { afterSeq.add(m); if (handled % slowEvery == 1) delayFor(midUs); return true; });
    auto dup = DuplicateFilterPtr::create();
    auto pretty = PrettyFormatterPtr::create(false, 15);
    const bool convoy = c["convoy"].toBool();
    auto mkSink = [&](Recorder &r) { return FunctionHandlerPtr::create([&r, &handled, slowEvery, sinkUs, convoy](LogMessage &m) { r.add(m); if (convoy || handled % slowEvery == 2) delayFor(sinkUs); return true; }); };

    Logger *logger = nullptr;
    OwnThreadHandler<Pipeline> *bare = nullptr;
    const bool nested = subject == "nested";
    if (subject == "bare") {
        bare = new OwnThreadHandler<Pipeline>();
        if (c["light"].toBool()) *bare << probeIn << seq << recSeq << mkSink(sinkAll) << probeOut; // handlers that take next to no time
        else *bare << probeIn << seq << recSeq << dup << pretty << mkSink(sinkAll) << probeOut;
    } else {
        logger = new Logger();
        *logger << probeIn << seq << recSeq << dup << pretty;
        if (nested) {
            auto pw = PipelinePtr::create(/*scoped*/ true);
            *pw << LevelFilterPtr::create(QtWarningMsg) << mkSink(sinkWarn);
            auto pn = PipelinePtr::create(/*scoped*/ true);
            *pn << CategoryFilterPtr::create(QStringLiteral("*=false\nnet=true")) << mkSink(sinkNet);
            *logger << pw << pn;
        }
        *logger << mkSink(sinkAll) << probeOut;
    }
    if (c["wasAsync"].toInt() > 0) {
        // The synchronous subject has a history: it was asynchronous for a while and is synchronous again before the producers are even
        // created (their threads may get the identity - pthread id, stack - of the worker thread that is gone). No message is logged here.
        for (int k = 0; k < c["wasAsync"].toInt(); k++) {
            if (bare) { bare->moveToOwnThread(); spinFor(300); bare->resetOwnThread(); }
            else { logger->moveToOwnThread(); spinFor(300); logger->resetOwnThread(); }
        }
        cls("subject_was_asynchronous_before", true);
    }
    if (logger) logger->installMessageHandler();

    // ---- producers ----
    static const QtMsgType kT[4] = { QtDebugMsg, QtInfoMsg, QtWarningMsg, QtCriticalMsg };
    std::vector<int> usable;
    for (int t = 0; t < 4; t++) if (types & (1 << t)) usable.push_back(t);
    auto typeOf = [&](int p, int i) { return kT[usable[size_t(p * 7 + i * 3) % usable.size()]]; };
    auto isNet = [&](int p, int i) { return int((unsigned(p) * 2654435761u + unsigned(i) * 40503u) % 100) < netShare; };
    std::vector<std::vector<Span>> spans{ size_t(P) };
    std::atomic<bool> go { false };
    std::vector<std::thread> threads;
    std::vector<quint64> producerThreadId(size_t(P), 0);
    for (int p = 0; p < P; p++)
        threads.emplace_back([&, p] {
            while (!go) std::this_thread::yield();
            spans[size_t(p)].reserve(size_t(N));
            for (int i = 0; i < N; i++) {
                if (preDelay == 1) std::this_thread::yield();
                else if (preDelay == 2) spinFor((p + i) % 3 == 0 ? spinUs : 0);
                const QByteArray text = QByteArray("p") + QByteArray::number(p) + "-" + QByteArray::number(i);
                const QtMsgType ty = typeOf(p, i);
                const bool net = isNet(p, i);
                const long long b = nowNs();
                if (bare) {
                    QMessageLogContext ctx("f.cpp", i, "fn", net ? "net" : "default");
                    LogMessage m(ty, ctx, QString::fromLatin1(text));
                    if (i == 0) producerThreadId[size_t(p)] = m.threadId();
                    bare->process(m);
                } else {
                    if (i == 0) { QMessageLogContext ctx; LogMessage m(QtDebugMsg, ctx, QString()); producerThreadId[size_t(p)] = m.threadId(); }
                    switch (ty) {
                    case QtDebugMsg: if (net) qCDebug(lcNet, "%s", text.constData()); else qDebug("%s", text.constData()); break;
                    case QtInfoMsg: if (net) qCInfo(lcNet, "%s", text.constData()); else qInfo("%s", text.constData()); break;
                    case QtWarningMsg: if (net) qCWarning(lcNet, "%s", text.constData()); else qWarning("%s", text.constData()); break;
                    default: if (net) qCCritical(lcNet, "%s", text.constData()); else qCritical("%s", text.constData()); break;
                    }
                }
                spans[size_t(p)].push_back({ b, nowNs(), p });
            }
        });
    go = true;
    if (c["extraLogger"].toBool()) {
        std::this_thread::sleep_for(std::chrono::microseconds(300));
        Logger *other = new Logger();
        *other << FunctionHandlerPtr::create([](LogMessage &) { return true; });
        std::this_thread::sleep_for(std::chrono::microseconds(200));
        delete other; // must not disturb the installed logger
    }
    for (auto &t : threads) t.join();
    if (logger) {
        Logger::restorePreviousMessageHandler();
        delete logger;
    }
    delete bare;

    // ---- statistics: did calls really overlap, and was somebody waiting while a probe was parked? ----
    std::vector<Span> all;
    for (auto &v : spans) all.insert(all.end(), v.begin(), v.end());
    std::sort(all.begin(), all.end(), [](const Span &a, const Span &b) { return a.b < b.b; });
    long overlapping = 0;
    {
        long long maxEnd = 0;
        for (size_t i = 0; i < all.size(); i++) {
            if (i > 0 && all[i].b < maxEnd) overlapping++;
            maxEnd = std::max(maxEnd, all[i].e);
        }
    }
    long parksDuringOverlap = 0;
    for (auto &ps : probe.parkSpans) {
        int inside = 0;
        for (auto &s : all)
            if (s.b < ps.second && s.e > ps.first && ++inside >= 2) break;
        if (inside >= 2) parksDuringOverlap++;
    }
    count("log_calls", long(all.size()));
    count("overlapping_calls", overlapping);
    count("probe_parks", probe.parks.load());
    count("parks_with_another_call_pending", parksDuringOverlap);
    cls("producers>16", P > 16);
    cls("another_logger_destroyed_meanwhile", c["extraLogger"].toBool());
    cls("convoy_waiting_seconds_at_the_lock", convoy);
    cls("hot_back_to_back_producers", c["hot"].toBool());
    cls("subject_" + subject.toStdString());
    cls("calls_overlapped", overlapping > 0);
    cls("park_during_overlap", parksDuringOverlap > 0);
    noteCase(c, P >= 2 && overlapping > 0 && parksDuringOverlap > 0);

    // ---- oracle ----
    if (probe.maxInflight.load() > 1)
        return "two threads were inside the pipeline at the same moment (max in-flight " + std::to_string(probe.maxInflight.load()) + ", subject " + subject.toStdString() + ")";
    if (probe.inflight.load() != 0)
        return "in-flight counter is " + std::to_string(probe.inflight.load()) + " after all producers returned";
    const long total = long(P) * N;
    auto checkSink = [&](const char *name, Recorder &r, const std::function<bool(int, int)> &qualifies, bool consecutiveSeq) -> std::string {
        std::vector<std::vector<char>> seen(size_t(P), std::vector<char>(size_t(N), 0));
        std::vector<int> lastIdx(size_t(P), -1);
        int lastSeq = -1;
        for (size_t k = 0; k < r.got.size(); k++) {
            const Delivery &d = r.got[k];
            if (d.producer < 0 || d.producer >= P || d.index < 0 || d.index >= N)
                return std::string(name) + ": delivery #" + std::to_string(k) + " carries a text no producer logged ('" + d.formatted.left(60).toStdString() + "')";
            if (!qualifies(d.producer, d.index)) return std::string(name) + ": message p" + std::to_string(d.producer) + "-" + std::to_string(d.index) + " does not qualify for this sink";
            if (seen[size_t(d.producer)][size_t(d.index)]++) return std::string(name) + ": message p" + std::to_string(d.producer) + "-" + std::to_string(d.index) + " delivered twice";
            if (d.index <= lastIdx[size_t(d.producer)]) return std::string(name) + ": messages of producer " + std::to_string(d.producer) + " out of order (" + std::to_string(d.index) + " after " + std::to_string(lastIdx[size_t(d.producer)]) + ")";
            lastIdx[size_t(d.producer)] = d.index;
            if (consecutiveSeq) {
                if (d.seq != lastSeq + 1) return std::string(name) + ": sequence number " + std::to_string(d.seq) + " follows " + std::to_string(lastSeq) + " in delivery order (gap or repeat)";
            } else if (d.seq <= lastSeq) {
                return std::string(name) + ": sequence numbers not increasing in delivery order (" + std::to_string(d.seq) + " after " + std::to_string(lastSeq) + ")";
            }
            lastSeq = d.seq;
            if (!d.formatted.endsWith(QStringLiteral("p%1-%2").arg(d.producer).arg(d.index)))
                return std::string(name) + ": formatted text '" + d.formatted.right(40).toStdString() + "' does not end with the message text";
        }
        for (int p = 0; p < P; p++)
            for (int i = 0; i < N; i++)
                if (qualifies(p, i) && !seen[size_t(p)][size_t(i)])
                    return std::string(name) + ": message p" + std::to_string(p) + "-" + std::to_string(i) + " was never delivered (" + std::to_string(r.got.size()) + " deliveries, " + std::to_string(total) + " messages logged)";
        return "";
    };
    auto always = [](int, int) { return true; };
    std::string d;
    if (!(d = checkSink("recorder after SeqNumberAttr", afterSeq, always, true)).empty()) return d;
    if (!(d = checkSink("sink behind DuplicateFilter+PrettyFormatter", sinkAll, always, true)).empty()) return d + " (texts are unique: the duplicate filter must pass everything)";
    if (nested) {
        if (!(d = checkSink("warning+ sink", sinkWarn, [&](int p, int i) { const QtMsgType t = typeOf(p, i); return t == QtWarningMsg || t == QtCriticalMsg; }, false)).empty()) return d;
        if (!(d = checkSink("category 'net' sink", sinkNet, [&](int p, int i) { return isNet(p, i); }, false)).empty()) return d;
    }
    // PrettyFormatter's thread table: one label per thread, labels distinct, at most P of them
    if (!(bare && c["light"].toBool())) {
        std::map<int, int> labelOf; // producer -> label (0 = blank field)
        std::map<int, int> owner;   // label -> producer
        static const QRegularExpression re(QStringLiteral("^\\d\\d\\.\\d\\d\\.\\d{4} \\d\\d:\\d\\d:\\d\\d . (T(\\d+) | {3,5})?"));
        for (auto &dl : sinkAll.got) {
            auto m = re.match(dl.formatted);
            if (!m.hasMatch()) return "PrettyFormatter output has an unexpected shape: '" + dl.formatted.left(60).toStdString() + "'";
            if (m.captured(2).isEmpty()) continue; // first thread (blank field) or only one thread known so far
            const int label = m.captured(2).toInt();
            if (label < 1 || label >= P) return "PrettyFormatter thread label T" + std::to_string(label) + " with only " + std::to_string(P) + " threads logging";
            auto it = labelOf.find(dl.producer);
            if (it != labelOf.end() && it->second != label) return "PrettyFormatter gave producer " + std::to_string(dl.producer) + " two thread labels (T" + std::to_string(it->second) + ", T" + std::to_string(label) + ")";
            labelOf[dl.producer] = label;
            auto ow = owner.find(label);
            if (ow != owner.end() && ow->second != dl.producer) return "PrettyFormatter gave thread label T" + std::to_string(label) + " to two producers";
            owner[label] = dl.producer;
        }
    }
    return "";
}

} // namespace

int main()
{
    // an application object: without one moveToOwnThread() stays synchronous, and the "was asynchronous before" prelude would do nothing
    static int argc = 1;
    static char arg0[] = "rc_concurrent";
    static char *argv[] = { arg0, nullptr };
    QCoreApplication app(argc, argv);
    return harnessMain("C02 concurrent logging: exactly-once, exclusive, ordered", generate, run);
}
