// C13 — JSON formatter: valid, complete, lossless; compact mode = one line.
//
// Case:   { type, text, cat, file, func (null or printable ASCII), line, compact,
//           attrs: [ [name, value] ... ] }          (value: see common/jsonval.h)
// Oracle: common/minijson.h parses the output strictly; the recovered fields must equal the
//         inputs; compact output must contain neither LF nor CR.
#include "common/jsonval.h"

#include "qtlogger/formatters/jsonformatter.h"
#include "qtlogger/simplepipeline.h"

#include <sys/wait.h>
#include <unistd.h>

using namespace QtLogger;
using namespace verif;

namespace {

const char *kBuiltins[] = { "type", "line", "file", "function", "category", "message", "time", "threadId" };

QJsonValue genCtxString(int maxLen)
{
    if (chance(12)) return QJsonValue(QJsonValue::Null); // null pointer
    return QString::fromLatin1(genAscii(maxLen));
}

QJsonObject generate()
{
    QJsonObject c;
    unsigned used = 0;
    bool nested = false;
    StrOpts so;
    so.maxLen = chance(8) ? 400 : 24;
    so.allowNull = true;
    c["type"] = pick(0, 4);
    c["text"] = strToJson(genString(so, &used));
    c["cat"] = genCtxString(20);
    c["file"] = genCtxString(40);
    c["func"] = genCtxString(60);
    c["line"] = chance(70) ? pick(0, 5000) : *rc::gen::arbitrary<int>();
    c["compact"] = chance(60);
    // the message may already carry formatted text when it reaches this formatter (a flat pipeline `format(...)` followed by
    // `formatToJson()`, a message passed through two formatters): "message" is the ORIGINAL text all the same
    if (chance(25)) { StrOpts po; po.maxLen = 12; c["pre"] = strToJson(chance(30) ? QString("{\"message\":\"x\"}") : genString(po, &used)); }
    // how the formatter is obtained: constructed directly, through the fluent API (SimplePipeline::formatToJson) after another
    // pipeline of the same process asked for the OTHER mode, or the documented shared instance (indented)
    c["via"] = chance(35) ? "ctor" : chance(40) ? "reused" : (chance(75) ? "pipeline" : "instance");
    // process-wide state (a shared formatter instance, a cached flag) is frozen by the first use in a process: a few
    // cases therefore run "other mode first, then this mode" in a freshly forked child, where nothing was used before
    c["fresh"] = chance(2);
    QJsonArray attrs;
    QStringList names;
    bool nearMiss = false;
    int n = sized(0, 8);
    for (int i = 0; i < n; i++) {
        StrOpts no;
        no.maxLen = 8;
        QString name = chance(60) ? QString::fromLatin1(genAscii(8, true)) : genString(no, &used);
        if (chance(12)) {
            // near misses of the built-in names (JSON keys are case sensitive, so none of these shadows a built-in field): another letter
            // case, a built-in name as prefix / suffix, surrounding blanks, the snake/camel twin
            static const char *near[] = { "Message", "MESSAGE", "Type", "TYPE", "Line", "File", "FILE", "Function", "Category", "Time", "threadid",
                                          "ThreadId", "THREADID", "thread_id", "message_id", "messages", "filetype", "timeout", "time ", " type",
                                          "line0", "mess", "typ", "categor", "func", "msg", "level", "timestamp" };
            name = QString::fromLatin1(near[pick(0, int(sizeof near / sizeof near[0]) - 1)]);
            nearMiss = true;
        }
        bool builtin = false;
        for (auto b : kBuiltins) if (name == QLatin1String(b)) builtin = true;
        if (builtin || names.contains(name)) continue;
        names << name;
        StrOpts vo = so;
        vo.maxLen = 16;
        attrs.append(QJsonArray { strToJson(name), genValue(3, vo, &used, &nested) });
    }
    c["attrs"] = attrs;
    c["usedClasses"] = int(used);
    c["nested"] = nested;
    c["nearMiss"] = nearMiss;
    return c;
}

QByteArray ctxBytes(const QJsonValue &v, bool *isNull)
{
    *isNull = v.isNull() || v.isUndefined();
    return *isNull ? QByteArray() : v.toString().toLatin1();
}

std::string run(const QJsonObject &c)
{
    const QtMsgType type = kTypes[c["type"].toInt()];
    const QString text = strFromJson(c["text"]);
    bool catNull, fileNull, funcNull;
    const QByteArray cat = ctxBytes(c["cat"], &catNull), file = ctxBytes(c["file"], &fileNull), func = ctxBytes(c["func"], &funcNull);
    const int line = c["line"].toInt();
    const bool compact = c["compact"].toBool();

    QMessageLogContext ctx(fileNull ? nullptr : file.constData(), line, funcNull ? nullptr : func.constData(), catNull ? nullptr : cat.constData());
    LogMessage lm(type, ctx, text);
    const QJsonArray attrs = c["attrs"].toArray();
    for (auto av : attrs)
        lm.setAttribute(strFromJson(av.toArray()[0]), toVariant(av.toArray()[1].toObject()));
    if (c.contains("pre")) { lm.setFormattedMessage(strFromJson(c["pre"])); cls("message_already_formatted_by_an_earlier_formatter", true); }

    const QString via = c["via"].toString();
    QString out;
    if (c["fresh"].toBool()) {
        fflush(nullptr);
        pid_t pid = fork();
        if (pid == 0) {
            // a forked child inherits whatever the parent already used; only a new process image is pristine
            setenv("VERIF_FRESH_JSON", compact ? "1" : "0", 1);
            execl("/proc/self/exe", "rc_json", (char *)nullptr);
            _exit(0);
        }
        int st = 0;
        if (pid > 0 && waitpid(pid, &st, 0) == pid && WIFEXITED(st) && WEXITSTATUS(st) == 7)
            return "in a fresh process, formatToJson(false) followed by formatToJson(true) on another pipeline: the compact pipeline's output contains a line break";
        count("fresh_process_runs");
    }
    if (via == "pipeline") {
        // a process may configure several JSON pipelines; each must honour its own flag, whatever was configured before
        SimplePipeline warmup;
        warmup.formatToJson(!compact);
        LogMessage w(lm);
        warmup.process(w);
        SimplePipeline p;
        p.formatToJson(compact);
        LogMessage m2(lm);
        p.process(m2);
        if (!m2.isFormatted()) return "SimplePipeline::formatToJson did not format the message";
        out = m2.formattedMessage();
    } else if (via == "instance") {
        if (compact) { // the shared instance is the indented one; nothing to decide for a compact request
            SimplePipeline warmup;
            warmup.formatToJson(true);
        }
        out = JsonFormatter::instance()->format(lm);
    } else if (via == "reused") {
        // one formatter object per mode lives for the whole run and formats message after message with different attribute sets
        static JsonFormatter reusedCompact(true), reusedIndented(false);
        out = (compact ? reusedCompact : reusedIndented).format(lm);
    } else {
        JsonFormatter f(compact);
        out = f.format(lm);
    }
    const bool compactExpected = compact && via != "instance";

    // ---- one line in compact mode ----
    if (compactExpected) {
        for (int i = 0; i < out.size(); i++)
            if (out[i] == QChar('\n') || out[i] == QChar('\r')) {
                return "compact output contains a line break (U+" + QString::number(out[i].unicode(), 16).toStdString() + ") at offset " + std::to_string(i);
            }
    }
    for (QChar ch : out)
        if (ch.unicode() == 0x2028 || ch.unicode() == 0x2029 || ch.unicode() == 0x0085) { count("raw_unicode_line_separator_in_output"); break; }

    // ---- exactly one valid JSON object ----
    const QByteArray utf8 = out.toUtf8();
    if (QString::fromUtf8(utf8) != out)
        return "output is not well-formed UTF-16 (does not survive UTF-8 encoding)";
    std::string bytes(utf8.constData(), size_t(utf8.size()));
    minijson::Parser parser(bytes);
    minijson::Value v;
    if (!parser.parse(v))
        return "output is not valid JSON: " + parser.error() + "; output: " + bytes.substr(0, 300);
    if (v.type != minijson::Value::Object)
        return "output is not a JSON object";

    // ---- built-in fields ----
    auto wantString = [&](const char *key, const QString &want) -> std::string {
        const minijson::Value *m = v.get(key);
        if (!m) return std::string("field '") + key + "' missing";
        if (m->type != minijson::Value::String) return std::string("field '") + key + "' is not a string";
        if (m->str != u16(want)) return std::string("field '") + key + "' is " + showU16(m->str).toStdString() + ", expected " + showU16(u16(want)).toStdString();
        return "";
    };
    std::string d;
    if (!(d = wantString("message", text)).empty()) return d;
    if (!(d = wantString("type", QString::fromLatin1(typeName(type)))).empty()) return d;
    if (!(d = wantString("category", QString::fromLatin1(cat))).empty()) return d;
    if (!(d = wantString("file", QString::fromLatin1(file))).empty()) return d;
    if (!(d = wantString("function", QString::fromLatin1(func))).empty()) return d;
    {
        const minijson::Value *m = v.get("line");
        if (!m) return "field 'line' missing";
        if (m->type != minijson::Value::Number || m->num != double(line)) return "field 'line' is " + m->numText + ", expected " + std::to_string(line);
    }
    if (!v.get("time")) return "field 'time' missing";
    if (!v.get("threadId")) return "field 'threadId' missing";
    // informational: does time parse back to the message time, is threadId the number?
    {
        const minijson::Value *m = v.get("time");
        if (m->type == minijson::Value::String) {
            QDateTime t = QDateTime::fromString(fromU16(m->str), Qt::ISODateWithMs);
            if (t.isValid() && t == lm.time()) count("time_round_trips");
        }
    }

    // ---- every custom attribute, value intact ----
    for (auto av : attrs) {
        const std::u16string name = u16(strFromJson(av.toArray()[0]));
        const minijson::Value *m = v.get(name);
        if (!m) return "custom attribute " + showU16(name).toStdString() + " missing from the object";
        std::string diff = sameValue(*m, av.toArray()[1].toObject(), "attribute " + showU16(name).toStdString());
        if (!diff.empty()) return diff;
    }

    // ---- nothing but the message's own fields: a record carries no key of an earlier message ----
    for (auto &kv : v.obj) {
        bool known = false;
        for (auto b : kBuiltins) if (kv.first == u16(QString::fromLatin1(b))) known = true;
        for (auto av : attrs) if (kv.first == u16(strFromJson(av.toArray()[0]))) known = true;
        if (!known) return "the object holds a key " + showU16(kv.first).toStdString() + " that is neither a built-in field nor an attribute of this message";
    }
    cls("via_reused_formatter_object", via == "reused");

    const unsigned used = unsigned(c["usedClasses"].toInt());
    const bool hard = used & ((1u << SC_CONTROL) | (1u << SC_JSONSYNTAX) | (1u << SC_ASTRAL));
    for (int k = 0; k < SC_COUNT; k++) cls(std::string("class_") + strClassName(k), used & (1u << k));
    cls("nested_container", c["nested"].toBool());
    cls("attribute_name_near_a_built_in_field_name", c["nearMiss"].toBool());
    cls("compact", compactExpected);
    cls("via_pipeline", via == "pipeline");
    cls("via_instance", via == "instance");
    cls("null_context_pointer", catNull || fileNull || funcNull);
    cls("long_text", text.size() > 100);
    noteCase(c, hard || c["nested"].toBool());
    return "";
}

} // namespace

// pristine-process scenario (see "fresh" in generate()): other mode first, then the requested mode on another pipeline
static int freshScenario(bool compact)
{
    QMessageLogContext ctx("f.cpp", 1, "fn", "cat");
    LogMessage lm(QtInfoMsg, ctx, QStringLiteral("hello"));
    lm.setAttribute(QStringLiteral("k"), QStringLiteral("v"));
    SimplePipeline first;
    first.formatToJson(!compact);
    LogMessage w(lm);
    first.process(w);
    SimplePipeline second;
    second.formatToJson(compact);
    LogMessage m2(lm);
    second.process(m2);
    const QString o = m2.formattedMessage();
    return compact && (o.contains(QChar('\n')) || o.contains(QChar('\r'))) ? 7 : 0;
}

int main()
{
    if (const char *f = getenv("VERIF_FRESH_JSON"))
        return freshScenario(f[0] == '1');
    return harnessMain("C13 JSON output valid, complete, lossless; compact = one line", generate, run);
}
