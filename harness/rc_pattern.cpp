// C12 — pattern formatting follows the documented mini-language; values are verbatim.
//
// Case:   { pattern, type, text, cat, file, func, line, attrs: [[name, kind(s|i|b), value]] }
// Oracle: common/refpattern.h (independent tokenizer + evaluator); exact equality on the core
//         documented domain, bounded-deletion obligations where the documentation is silent.
#include "common/gen.h"
#include "common/refpattern.h"

#include "qtlogger/formatters/patternformatter.h"

#include <chrono>

using namespace QtLogger;
using namespace verif;

namespace {

const char *kAttrNames[] = { "user", "seq", "x", "app_name" };

QString genLiteral(unsigned *used)
{
    StrOpts o;
    o.maxLen = 6;
    o.allowZwsp = !excluded("zwsp");
    o.allowNul = true;
    QString s = genString(o, used);
    // a literal '%' must be written as %% unless the test is about lone percent signs (handled separately)
    QString out;
    for (QChar c : s) {
        if (c == QChar('%')) out += "%%";
        else out += c;
    }
    return out;
}

QString genSpec(int contentLenHint)
{
    if (chance(45)) return QString();
    QString fill;
    QString align = QString(QChar("<>^"[pick(0, 2)]));
    int fr = pick(0, 9);
    if (fr < 4) fill = "";
    else if (fr < 8) { static const char f[] = "*0 _.-#=+<>^!:1"; fill = QString(QChar(f[pick(0, 14)])); }
    else { static const ushort f[] = { 0x00e9, 0x65e5, 0x200d, 0x00a0 }; fill = QString(QChar(f[pick(0, 3)])); }
    bool bang = chance(40);
    if (chance(12)) { align = ""; fill = ""; bang = true; } // "N!" alone
    int width = chance(50) ? qMax(1, contentLenHint + pick(-2, 2)) : pick(1, 40);
    QString s = ":" + fill + align + QString::number(width) + (bang ? "!" : "");
    if (chance(3)) { static const char *junk[] = { ":<0", ":0!", ":<", ":!", ":x5", ":<5x", ":^-3" }; s = junk[pick(0, 6)]; }
    return s;
}

QString genPlaceholder(const QString &text, const QJsonArray &attrs)
{
    int r = pick(0, 99);
    QString name;
    int hint = 5;
    if (r < 16) { name = "message"; hint = text.size(); }
    else if (r < 24) { name = "type"; hint = 6; }
    else if (r < 30) { name = "category"; hint = 5; }
    else if (r < 34) { name = "file"; hint = 12; }
    else if (r < 38) { name = "shortfile"; hint = 6; }
    else if (r < 42) { static const char *b[] = { "shortfile /home/u", "shortfile /home/u/", "shortfile C:\\x", "shortfile  /home ", "shortfile nomatch", "shortfile  " }; name = b[pick(0, 5)]; hint = 6; }
    else if (r < 46) { name = "line"; hint = 3; }
    else if (r < 49) { name = "function"; hint = 8; }
    else if (r < 51) { name = "func"; hint = 8; }
    else if (r < 53) { name = "threadid"; hint = 15; }
    else if (r < 55) { name = "qthreadptr"; hint = 14; }
    else if (r < 57) { name = "time"; hint = 19; }
    else if (r < 61) { static const char *f[] = { "time yyyy-MM-dd hh:mm:ss", "time hh:mm:ss.zzz", "time dd.MM.yyyy", "time yyyy-MM-ddThh:mm:ss.zzz", "time  hh:mm ", "time zzz" }; name = f[pick(0, 5)]; hint = 10; }
    else if (r < 63) { name = chance(50) ? "time process" : "time boot"; return "%{" + name + "}"; }
    else if (r < 66) { static const char *u[] = { "nosuch", "", "Message", "if", "endif ", "time2", "msg:" }; name = u[pick(0, 6)]; }
    else {
        name = kAttrNames[pick(0, 3)];
        if (chance(8)) name = QString::fromUtf8("имя");
        int q = pick(0, 9);
        if (q < 2) { }                                            // %{name}
        else if (q < 4) name += "?";                              // %{name?}
        else if (q < 6) name += "?" + QString::number(pick(0, 3));
        else if (q < 9) name += "?" + QString::number(pick(0, 3)) + "," + QString::number(pick(0, 3));
        else name += "?," + QString::number(pick(0, 3));
        hint = 4;
    }
    return "%{" + name + genSpec(hint) + "}";
}

// A signature from the narrow, uncontroversial part of what compilers put into Q_FUNC_INFO: [return type] [scope::]*name(args)
// [const] [noexcept] [[with T = ...]]. The documented result of %{func} ("cleaned function name", docs/api/formatters.md:
// `void MyClass::myMethod(int, QString)` -> `MyClass::myMethod`) is the qualified name. Where a scope is a class template the docs are
// silent on whether its arguments stay: both spellings are accepted. No operators, lambdas or function-pointer types here (heuristics).
void genSignature(QJsonObject &c)
{
    static const char *rets[] = { "", "void", "int", "bool", "QString", "const QString &", "const QString&", "char *", "char*", "unsigned long", "static void", "virtual int",
                                  "QList<int>", "std::map<int, QString>", "auto", "const std::vector<std::pair<int, int> > &", "QtLogger::Handler::HandlerType" };
    static const char *scopes[] = { "N", "MyClass", "app", "Inner_2", "detail", "QtLogger", "a1" };
    static const char *tscopes[] = { "Box<int>", "Map<QString, QList<int> >", "Tpl<T>" };
    static const char *names[] = { "f", "myMethod", "run", "process_2", "x", "main", "constValue", "finalize", "do_override" };
    static const char *args[] = { "()", "(int)", "(int, QString)", "(const QString &, int *)", "(QList<int>)", "(const std::map<int, QString> &, bool)", "(T)", "(void)", "(int, ...)" };
    static const char *tails[] = { "", "", " const", " noexcept", " const noexcept", " volatile", " [with T = int]", " const [with T = QList<int>; U = char]",
                                   " [with T = void (*)(int)]", " [with F = std::function<void()>; T = int]" };
    QString ret = rets[pick(0, 16)];
    QString plain, kept;
    int ns = pick(0, 3);
    QString lastClass;
    for (int i = 0; i < ns; i++) {
        if (chance(15)) { QString t = tscopes[pick(0, 2)]; kept += t + "::"; plain += t.left(t.indexOf('<')) + "::"; lastClass = t.left(t.indexOf('<')); }
        else { QString sc = scopes[pick(0, 6)]; kept += sc + "::"; plain += sc + "::"; lastClass = sc; }
    }
    QString name = names[pick(0, 8)];
    if (ns > 0 && chance(12)) { name = lastClass; ret = ""; }               // constructor
    else if (ns > 0 && chance(8)) { name = "~" + lastClass; ret = ""; }     // destructor
    const QString sig = (ret.isEmpty() ? QString() : ret + " ") + kept + name + args[pick(0, 8)] + tails[pick(0, 9)];
    c["func"] = sig;
    QJsonArray acc { plain + name };
    if (kept != plain) acc.append(kept + name);
    c["funcAccept"] = acc;
}

QJsonObject generate()
{
    QJsonObject c;
    unsigned used = 0;
    StrOpts so;
    so.maxLen = 10;
    so.allowZwsp = !excluded("zwsp");
    QString text = genString(so, &used);
    // place-holder syntax of OTHER formatting facilities inside a value (QString::arg's %1..%99 / %L1, printf's %s %d): a value is
    // data, whatever the formatter uses internally to assemble its output
    auto sprinkle = [&](QString &v) {
        static const char *alien[] = { "%1", "%2", "%3", "%L1", "%s", "%d", "%99", "%0" };
        if (chance(12)) { v.insert(pick(0, v.size()), QLatin1String(alien[pick(0, 7)])); used |= 1u << SC_PATSYNTAX; }
    };
    sprinkle(text);
    c["text"] = strToJson(text);
    c["type"] = pick(0, 4);
    static const char *cats[] = { "default", "app.net", "c", "", "qt.core", "a%b{c}", "net%1" };
    c["cat"] = cats[pick(0, 6)];
    static const char *files[] = { "/home/u/src/m.cpp", "m.cpp", "C:\\x\\y.cpp", "/home/u", "", "/home/ux/a.cpp", "../a b/c.cpp", "/home/u/" };
    c["file"] = files[pick(0, 7)];
    static const char *funcs[] = { "void f()", "int N::C::m(const QString&) const", "main", "", "auto x::operator()(int)::<lambda()>" };
    c["func"] = funcs[pick(0, 4)];
    if (chance(60)) genSignature(c);
    c["line"] = chance(80) ? pick(0, 99999) : -pick(0, 5);
    if (chance(15)) { StrOpts po; po.maxLen = 8; po.allowZwsp = so.allowZwsp; c["pre"] = strToJson(genString(po, &used)); } // already formatted by an earlier formatter
    QJsonArray attrs;
    for (auto n : kAttrNames) {
        if (!chance(50)) continue;
        int k = pick(0, 2);
        StrOpts vo; vo.maxLen = 6; vo.allowZwsp = so.allowZwsp;
        if (k == 0) { QString v = genString(vo, &used); sprinkle(v); attrs.append(QJsonArray { n, "s", strToJson(v) }); }
        else if (k == 1) attrs.append(QJsonArray { n, "i", chance(50) ? pick(-5, 100) : pick(0, 1000000) });
        else attrs.append(QJsonArray { n, "b", bool(pick(0, 1)) });
    }
    if (chance(30)) attrs.append(QJsonArray { QString::fromUtf8("имя"), "s", "v" });
    c["attrs"] = attrs;

    QString pat;
    int n = chance(3) ? 0 : sized(1, 9);
    for (int i = 0; i < n; i++) {
        int r = pick(0, 99);
        if (r < 32) pat += genLiteral(&used);
        else if (r < 36) pat += "%%";
        else if (r < 40) { static const char *lone[] = { "%", "% ", "%x", "%}", "%:" }; pat += lone[pick(0, 4)]; }
        else if (r < 84) pat += genPlaceholder(text, attrs);
        else if (r < 96) {
            static const char *t[] = { "debug", "info", "warning", "critical", "fatal" };
            pat += QString("%{if-") + (chance(30) ? t[c["type"].toInt()] : t[pick(0, 4)]) + "}";
            int k = pick(0, 3);
            for (int j = 0; j < k; j++) pat += chance(50) ? genLiteral(&used) : genPlaceholder(text, attrs);
            if (!chance(5)) pat += "%{endif}";
        } else if (r < 98) pat += "%{unterminated";
        else pat += chance(50) ? "%{if-verbose}x%{endif}" : "%{endif}";
    }
    c["pattern"] = strToJson(pat);
    c["usedClasses"] = int(used);
    return c;
}

QString show(const QString &s)
{
    QString o = "\"";
    for (QChar ch : s) {
        if (ch.unicode() < 0x20 || ch.unicode() > 0x7e) o += QString("\\u%1").arg(ch.unicode(), 4, 16, QChar('0'));
        else o += ch;
    }
    return o + "\"";
}

std::string run(const QJsonObject &c)
{
    const QString pattern = strFromJson(c["pattern"]);
    const int typeIdx = c["type"].toInt();
    const QString text = strFromJson(c["text"]);
    const QByteArray cat = c["cat"].toString().toLatin1(), file = c["file"].toString().toLatin1(), func = c["func"].toString().toLatin1();
    QMessageLogContext ctx(file.constData(), c["line"].toInt(), func.constData(), cat.constData());
    LogMessage lm(kTypes[typeIdx], ctx, text);
    refpattern::Message m;
    for (auto av : c["attrs"].toArray()) {
        QJsonArray a = av.toArray();
        const QString name = a[0].toString(), kind = a[1].toString();
        if (kind == "s") { QString v = strFromJson(a[2]); lm.setAttribute(name, v); m.attrs[name] = v; }
        else if (kind == "i") { lm.setAttribute(name, a[2].toInt()); m.attrs[name] = QString::number(a[2].toInt()); }
        else { lm.setAttribute(name, a[2].toBool()); m.attrs[name] = a[2].toBool() ? "true" : "false"; }
    }
    if (c.contains("pre")) { lm.setFormattedMessage(strFromJson(c["pre"])); cls("message_already_formatted_by_an_earlier_formatter", true); }
    m.typeIdx = typeIdx;
    m.text = text;
    m.category = QString::fromLatin1(cat);
    m.file = QString::fromLatin1(file);
    m.function = QString::fromLatin1(func);
    m.line = c["line"].toInt();
    m.threadId = lm.threadId();
    m.time = QDateTime::fromMSecsSinceEpoch(lm.time().toMSecsSinceEpoch()); // the instant in LOCAL time, whatever time spec the message carries
    {
        PatternFormatter pf(QStringLiteral("%{func}"));
        m.funcCleaned = pf.format(lm);
    }

    if (c.contains("funcAccept")) {
        bool okf = false;
        for (auto a : c["funcAccept"].toArray()) if (a.toString() == m.funcCleaned) okf = true;
        cls("func_signature_with_exact_name", true);
        if (!okf) return "%{func} of the signature " + show(m.function).toStdString() + " is " + show(m.funcCleaned).toStdString() + ", the cleaned function name is "
                    + show(c["funcAccept"].toArray()[0].toString()).toStdString();
    }

    PatternFormatter pf(pattern);
    const QString out = pf.format(lm);
    const QString again = pf.format(lm);
    if (out != again) return "formatting the same message twice gives different results";

    const refpattern::Result r = refpattern::evaluate(pattern, m);
    const std::string head = "pattern " + show(pattern).toStdString() + " type " + typeName(kTypes[typeIdx]) + " message " + show(text).toStdString() + ": ";
    bool ok = true;
    std::string why;
    switch (r.grade) {
    case refpattern::Skip:
        count("skipped_not_modelled");
        cls("grade_skip");
        noteCase(c, false);
        return "";
    case refpattern::Exact:
        if (r.opaque) {
            ok = out.size() >= r.opaquePrefix.size() + r.opaqueSuffix.size() && out.startsWith(r.opaquePrefix) && out.endsWith(r.opaqueSuffix);
            if (ok) {
                const QString mid = out.mid(r.opaquePrefix.size(), out.size() - r.opaquePrefix.size() - r.opaqueSuffix.size());
                const int dot = mid.indexOf('.');
                ok = dot >= 1 && mid.size() - dot - 1 == 3;
                for (int i = 0; ok && i < mid.size(); i++) if (i != dot && !mid[i].isDigit()) ok = false;
            }
            if (!ok) why = "output " + show(out).toStdString() + " is not " + show(r.opaquePrefix).toStdString() + " <seconds.mmm> " + show(r.opaqueSuffix).toStdString();
        } else {
            ok = r.exact.contains(out);
            if (!ok) why = "output " + show(out).toStdString() + ", documented rules give " + show(r.exact.value(0)).toStdString();
        }
        break;
    case refpattern::Bounded:
        ok = false;
        for (auto &f : r.full)
            if (refpattern::boundedMatchMasked(out, f, r.fullMask, r.budget, r.keepPrefix, r.keepSuffixFrom)) ok = true;
        if (!ok) why = "output " + show(out).toStdString() + " is not " + show(r.full.value(0)).toStdString() + " minus at most " + std::to_string(r.budget)
                    + " units around the missing optional attributes (" + r.note.toStdString() + ")";
        break;
    }
    if (!ok) return head + why;

    // ---- statistics ----
    const refpattern::Parsed p = refpattern::tokenize(pattern);
    bool hasSpec = false, hasCond = false, missingOpt = false, specOnAttr = false, optInCond = false;
    for (auto &t : p.tokens) {
        if (t.hasSpec) hasSpec = true;
        if (t.cond >= 0) hasCond = true;
        if (!t.literal && t.name.contains('?')) {
            if (!m.attrs.contains(t.name.left(t.name.indexOf('?')))) missingOpt = true;
            if (t.cond >= 0) optInCond = true;
        }
        if (!t.literal && t.hasSpec && (t.name.startsWith("user") || t.name.startsWith("seq") || t.name.startsWith("x"))) specOnAttr = true;
    }
    const unsigned used = unsigned(c["usedClasses"].toInt());
    const bool hardValue = used & ~(1u << SC_ASCII);
    bool zw = false, endsZwsp = false;
    auto scan = [&](const QString &s) { if (s.contains(QChar(0x200b))) zw = true; if (s.endsWith(QChar(0x200b))) endsZwsp = true; };
    scan(text);
    for (auto v : m.attrs) scan(v);
    cls("grade_exact", r.grade == refpattern::Exact);
    cls("grade_bounded", r.grade == refpattern::Bounded);
    cls("tokenless", r.tokenless);
    cls("has_spec", hasSpec);
    cls("has_conditional", hasCond);
    cls("missing_optional_attribute", missingOpt);
    cls("spec_on_attribute", specOnAttr);
    cls("optional_inside_conditional", optInCond);
    cls("zwsp_in_value", zw);
    cls("value_ends_with_zwsp", endsZwsp);
    cls("pattern_contains_zwsp", pattern.contains(QChar(0x200b)));
    noteCase(c, p.tokens.size() >= 3 && hasSpec && (hasCond || missingOpt) && hardValue && r.grade != refpattern::Skip);
    return "";
}

} // namespace

int main()
{
    return harnessMain("C12 pattern mini-language; values verbatim", generate, run);
}
