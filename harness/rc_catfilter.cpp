// C15 — category rules decide exactly as ordered Qt-style rules prescribe.
//
// Case:   { rules: <text>, cat: <category> }   (all five message types are probed per case)
// Oracle: refglob.h (hand-written parser + '*' glob, last match wins); second opinion on the
//         subset Qt itself supports: QLoggingCategory::isEnabled after setFilterRules.
#include "common/gen.h"
#include "common/refglob.h"

#include "qtlogger/filters/categoryfilter.h"

#include <QLoggingCategory>

using namespace QtLogger;
using namespace verif;

namespace {

const char kNameAlphabet[] = "ab.x*+?()[]\\^$|{}-_1";

QString genName()
{
    QString s;
    int n = pick(1, 7);
    for (int i = 0; i < n; i++) {
        if (chance(6))
            s.append(QChar(ushort(chance(50) ? 0x00e9 : 0x65e5)));
        else
            s.append(QChar(ushort(kNameAlphabet[pick(0, int(sizeof(kNameAlphabet)) - 2)])));
    }
    return s;
}

QString genCategory()
{
    static const char alpha[] = "ab.x+($*[";
    QString s;
    int n = chance(8) ? pick(20, 45) : pick(0, 8); // long categories make many-wildcard patterns expensive for a backtracking matcher
    for (int i = 0; i < n; i++) {
        if (chance(5))
            s.append(QChar(ushort(0x00e9)));
        else
            s.append(QChar(ushort(alpha[pick(0, chance(85) ? 3 : int(sizeof(alpha)) - 2)])));
    }
    if (chance(10)) s += ".debug";
    return s;
}

// a rule pattern derived from the probed category, so that overlaps and near-misses are frequent
QString derivePattern(const QString &cat)
{
    int r = pick(0, 11);
    const int L = cat.size();
    if (r == 10) { // many wildcards: a '*' (or a run of them) between all characters - still matches the category
        QString p;
        const int run = chance(50) ? 1 : pick(2, 12);
        for (int i = 0; i < L; i++) { p += QString(run, QChar('*')); p += cat[i]; }
        return p + "*";
    }
    if (r == 11) { // a long run of '*' around an infix
        int i = pick(0, L), j = pick(i, L);
        return QString(pick(3, 30), QChar('*')) + cat.mid(i, j - i) + QString(pick(3, 30), QChar('*'));
    }
    if (r == 0) return cat.isEmpty() ? QStringLiteral("*") : cat;                          // exact
    if (r == 1) return cat.left(pick(0, L)) + "*";                                        // prefix*
    if (r == 2) return "*" + cat.mid(pick(0, L));                                         // *suffix
    if (r == 3) { int i = pick(0, L), j = pick(i, L); return cat.left(i) + "*" + cat.mid(j); } // mid
    if (r == 4) { int i = pick(0, L), j = pick(i, L); return "*" + cat.mid(i, j - i) + "*"; }  // *infix*
    if (r == 5) return cat + "x";                                                         // near miss: longer
    if (r == 6) return L ? cat.left(L - 1) : QStringLiteral("a");                          // near miss: shorter
    if (r == 7) { QString c = cat; if (L) c[pick(0, L - 1)] = QChar('.'); else c = "."; return c; } // '.' must be literal
    if (r == 8) { int i = pick(0, L), j = pick(i, L), k = pick(j, L); return cat.left(i) + "*" + cat.mid(j, k - j) + "*" + cat.mid(pick(k, L)); }
    return QStringLiteral("*");
}

QString ws() { static const char *w[] = { "", "", "", " ", "\t", "  ", " \t" }; return w[pick(0, 6)]; }

QString genLine(const QString &cat)
{
    if (chance(12)) { // garbage lines
        static const char *g[] = { "garbage", "=true", "a b=true", "x==", "a=TRUE", "a=1", "a= tru", " = false", "a=true false",
                                   "#comment", "a = b", "true", "a.debug", "*", "a=yes", "a=falsee", "[Rules]" };
        return g[pick(0, 16)];
    }
    QString name = chance(70) ? derivePattern(cat) : genName();
    if (name.isEmpty()) name = "*";
    if (chance(40)) { static const char *t[] = { ".debug", ".info", ".warning", ".critical", ".fatal", ".Debug" }; name += t[pick(0, chance(90) ? 3 : 5)]; }
    QString val = chance(50) ? "true" : "false";
    QString eq = chance(6) ? "==" : "=";
    if (chance(4)) return name + "=" + (chance(50) ? "true" : "false") + "=" + val;
    return ws() + name + ws() + eq + ws() + val + ws() + (chance(5) ? "\r" : "");
}

QJsonObject generate()
{
    QJsonObject c;
    QString cat = genCategory();
    QString rules;
    int n = chance(5) ? 0 : sized(1, 12);
    for (int i = 0; i < n; i++) {
        rules += genLine(cat);
        static const char *sep[] = { ";", "\n", ";;", "\n;", ";\n", "\n\n", ";", "\n" };
        if (i + 1 < n || chance(50))
            rules += sep[pick(0, 7)];
    }
    c["rules"] = strToJson(rules);
    c["cat"] = strToJson(cat);
    return c;
}

bool asciiOnly(const QString &s)
{
    for (QChar ch : s)
        if (ch.unicode() < 0x20 || ch.unicode() > 0x7e) return false;
    return true;
}

std::string run(const QJsonObject &c)
{
    const QString rulesText = strFromJson(c["rules"]);
    const QString cat = strFromJson(c["cat"]);
    const QByteArray catUtf8 = cat.toUtf8();

    const std::vector<refglob::Rule> rules = refglob::parseRules(rulesText);
    CategoryFilter filter(rulesText);
    QMessageLogContext ctx("f.cpp", 1, "f", catUtf8.constData());

    bool conflicting = false, metaInMatching = false, garbageBetween = false, nonDefault = false;
    for (int t = 0; t < 5; t++) {
        LogMessage lm(kTypes[t], ctx, QStringLiteral("x"));
        const bool got = filter.filter(lm);
        int deciding = -1, matching = 0;
        const bool exp = refglob::verdict(rules, cat, t, &deciding, &matching);
        if (got != exp) {
            std::string s = std::string("category '") + catUtf8.constData() + "' type " + typeName(kTypes[t]) + ": filter says "
                    + (got ? "pass" : "drop") + ", ordered rule evaluation says " + (exp ? "pass" : "drop");
            if (deciding >= 0) s += " (deciding rule: '" + rules[size_t(deciding)].sourceLine.toStdString() + "')";
            else s += " (no rule matches)";
            return s;
        }
        if (!exp) nonDefault = true;
        // non-triviality observations
        bool sawT = false, sawF = false;
        int firstMatch = -1, lastMatch = -1;
        for (size_t i = 0; i < rules.size(); i++) {
            const auto &r = rules[i];
            if ((r.type == -1 || r.type == t) && refglob::globMatch(r.pattern, cat)) {
                (r.enabled ? sawT : sawF) = true;
                if (firstMatch < 0) firstMatch = int(i);
                lastMatch = int(i);
                for (QChar ch : r.pattern)
                    if (QStringLiteral(".+?()[]\\^$|{}").contains(ch)) metaInMatching = true;
            }
        }
        if (sawT && sawF) conflicting = true;
    }
    // garbage line present between well-formed lines
    {
        int wellBefore = 0;
        bool pendingGarbage = false;
        QString cur;
        auto flush = [&] {
            if (cur.isEmpty()) return;
            refglob::Rule r;
            if (refglob::parseLine(cur, &r)) { if (pendingGarbage && wellBefore) garbageBetween = true; wellBefore++; }
            else if (!refglob::trimWs(cur).isEmpty()) pendingGarbage = true;
            cur.clear();
        };
        for (QChar ch : rulesText) { if (ch == ';' || ch == '\n') flush(); else cur.append(ch); }
        flush();
    }

    // ---- second opinion: Qt's own rule engine on the subset it supports ----
    bool qtComparable = asciiOnly(cat) && !cat.startsWith("qt") && !cat.isEmpty();
    QString qtRules;
    for (const auto &r : rules) {
        QString p = r.pattern;
        if (!asciiOnly(p) || p.startsWith(';') || p.contains('=')) qtComparable = false;
        QString core = p;
        if (core.endsWith('*')) core.chop(1);
        if (core.startsWith('*')) core = core.mid(1);
        if (core.contains('*')) qtComparable = false;
        // Qt 5.15's suffix rule ("*core") tests the FIRST occurrence of core (QLoggingRule::pass uses
        // indexOf), so it misses 'bb' for '*b'; such rules are outside the comparable subset
        if (p.startsWith('*') && !p.endsWith('*') && !core.isEmpty() && cat.indexOf(core) >= 0
            && cat.indexOf(core) != cat.size() - core.size())
            qtComparable = false;
        // a pattern that itself ends in a type suffix would be re-typed by Qt
        for (const char *sfx : { ".debug", ".info", ".warning", ".critical" })
            if (r.type == -1 && p.endsWith(QLatin1String(sfx))) qtComparable = false;
        static const char *sfx[] = { ".debug", ".info", ".warning", ".critical" };
        qtRules += p + (r.type >= 0 ? sfx[r.type] : "") + "=" + (r.enabled ? "true" : "false") + "\n";
    }
    if (qtComparable) {
        QLoggingCategory::setFilterRules(qtRules);
        {
            QLoggingCategory qc(catUtf8.constData());
            for (int t = 0; t < 4; t++) {
                const bool qt = qc.isEnabled(kTypes[t]);
                const bool exp = refglob::verdict(rules, cat, t);
                if (qt != exp) { // the library is not involved here: an oracle question, never a violation
                    count("qt_second_opinion_disagreements");
                    fprintf(stderr, "NOTE reference and QLoggingCategory disagree: category '%s' type %s rules %s\n",
                            catUtf8.constData(), typeName(kTypes[t]), qtRules.replace('\n', ';').toUtf8().constData());
                }
            }
        }
        QLoggingCategory::setFilterRules(QString());
        count("qt_second_opinion_cases");
    }

    cls("conflicting_matching_rules", conflicting);
    cls("metachar_in_matching_rule", metaInMatching);
    cls("garbage_between_rules", garbageBetween);
    cls("non_default_verdict", nonDefault);
    cls("qt_comparable", qtComparable);
    noteCase(c, conflicting || metaInMatching || (garbageBetween && nonDefault));
    return "";
}

} // namespace

int main()
{
    qunsetenv("QT_LOGGING_RULES");
    qunsetenv("QT_LOGGING_CONF");
    return harnessMain("C15 category rules = ordered Qt-style rules", generate, run);
}
