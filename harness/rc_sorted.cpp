// C17 — the sorted pipeline keeps handler classes in order for any call sequence.
//
// Case:   { target: "sorted"|"simple", ops: [ { op, null } ... ] }
// Oracle: five insertion-ordered lists (attr, filter, formatter (<=1), sink, pipeline); after
//         EVERY call handlers() must equal their concatenation by object identity, and a
//         processed message must visit the recording handlers in exactly that order.
#include "common/gen.h"

#include "qtlogger/simplepipeline.h"
#include "qtlogger/sortedpipeline.h"

using namespace QtLogger;
using namespace verif;

namespace {

std::vector<int> *g_trace = nullptr;

struct RecAttr : AttrHandler
{
    int id;
    explicit RecAttr(int i) : id(i) { }
    QVariantHash attributes(const LogMessage &) override
    {
        if (g_trace) g_trace->push_back(id);
        return {};
    }
};
struct RecFilter : Filter
{
    int id;
    explicit RecFilter(int i) : id(i) { }
    bool filter(const LogMessage &) override
    {
        if (g_trace) g_trace->push_back(id);
        return true;
    }
};
struct RecFormatter : Formatter
{
    int id;
    explicit RecFormatter(int i) : id(i) { }
    QString format(const LogMessage &m) override
    {
        if (g_trace) g_trace->push_back(id);
        return m.message();
    }
};
struct RecSink : Sink
{
    int id;
    explicit RecSink(int i) : id(i) { }
    void send(const LogMessage &) override
    {
        if (g_trace) g_trace->push_back(id);
    }
};
struct RecHandler : Handler
{
    int id;
    explicit RecHandler(int i) : id(i) { }
    bool process(LogMessage &) override
    {
        if (g_trace) g_trace->push_back(id);
        return true;
    }
};

const char *kOps[] = { "attr", "filter", "fmt", "sink", "pipe",
                       "clearAttr", "clearFilter", "clearFmt", "clearSink", "clearPipe",
                       "clearTypeAttr", "clearTypeFilter", "clearTypeFmt", "clearTypeSink", "clearTypePipe",
                       "clear" };

QJsonObject generate()
{
    QJsonObject c;
    c["target"] = chance(50) ? "sorted" : "simple";
    QJsonArray ops;
    int n = sized(0, 40);
    for (int i = 0; i < n; i++) {
        QJsonObject o;
        int k;
        if (chance(80))
            k = pick(0, 4); // insertions dominate
        else
            k = pick(5, 15);
        o["op"] = kOps[k];
        if (k <= 4 && chance(6))
            o["null"] = true;
        if (k == 4 && chance(50))
            o["scoped"] = true;
        if (k == 2 && chance(25))
            o["again"] = true; // setFormatter with the formatter object created last (re-applied configuration, shared singleton)
        if ((k == 0 || k == 1 || k == 3) && chance(12))
            o["again"] = true; // the same handler instance appended once more (a shared attribute handler / filter / sink)
        ops.append(o);
    }
    c["ops"] = ops;
    return c;
}

std::string classSeq(const QList<HandlerPtr> &hs)
{
    std::string s;
    for (auto &h : hs) {
        switch (h->type()) {
        case Handler::HandlerType::AttrHandler: s += 'A'; break;
        case Handler::HandlerType::Filter: s += 'F'; break;
        case Handler::HandlerType::Formatter: s += 'M'; break;
        case Handler::HandlerType::Sink: s += 'S'; break;
        case Handler::HandlerType::Pipeline: s += 'P'; break;
        default: s += '?';
        }
    }
    return s;
}

std::string run(const QJsonObject &c)
{
    const bool simple = c["target"].toString() == "simple";
    QSharedPointer<SortedPipeline> p = simple ? QSharedPointer<SortedPipeline>(new SimplePipeline())
                                              : QSharedPointer<SortedPipeline>::create();
    // model
    std::vector<HandlerPtr> mAttr, mFilter, mFmt, mSink, mPipe;
    std::map<const Handler *, int> ids; // handler (or the recorder inside a child pipeline) -> id
    int nextId = 0;
    const QJsonArray ops = c["ops"].toArray();
    int rank[5] = { -1, -1, -1, -1, -1 };
    bool lowerAfterHigher = false, twoOfOneClass = false, clearedSomething = false;
    int step = 0;
    QSharedPointer<RecFormatter> lastFmt;
    bool sameFormatterAgain = false, sameInstanceAgain = false;
    std::vector<QSharedPointer<RecAttr>> everAttr;
    std::vector<QSharedPointer<RecFilter>> everFilter;
    std::vector<QSharedPointer<RecSink>> everSink;
    for (const auto &ov : ops) {
        const QJsonObject o = ov.toObject();
        const QString op = o["op"].toString();
        const bool isNull = o["null"].toBool();
        step++;
        auto noteInsert = [&](int cls_, size_t sizeAfter) {
            for (int hi = cls_ + 1; hi < 5; hi++)
                if (rank[hi] >= 0)
                    lowerAfterHigher = true;
            rank[cls_] = step;
            if (sizeAfter >= 2)
                twoOfOneClass = true;
        };
        if (op == "attr") {
            if (isNull) {
                p->appendAttrHandler(AttrHandlerPtr());
            } else if (o["again"].toBool() && !everAttr.empty()) {
                auto h = everAttr[size_t(step) % everAttr.size()];
                p->appendAttrHandler(h);
                mAttr.push_back(h);
                noteInsert(0, mAttr.size());
                sameInstanceAgain = true;
            } else {
                auto h = QSharedPointer<RecAttr>::create(nextId++);
                everAttr.push_back(h);
                ids[h.data()] = h->id;
                p->appendAttrHandler(h);
                mAttr.push_back(h);
                noteInsert(0, mAttr.size());
            }
        } else if (op == "filter") {
            if (isNull) {
                p->appendFilter(FilterPtr());
            } else if (o["again"].toBool() && !everFilter.empty()) {
                auto h = everFilter[size_t(step) % everFilter.size()];
                p->appendFilter(h);
                mFilter.push_back(h);
                noteInsert(1, mFilter.size());
                sameInstanceAgain = true;
            } else {
                auto h = QSharedPointer<RecFilter>::create(nextId++);
                everFilter.push_back(h);
                ids[h.data()] = h->id;
                p->appendFilter(h);
                mFilter.push_back(h);
                noteInsert(1, mFilter.size());
            }
        } else if (op == "fmt") {
            if (isNull) {
                p->setFormatter(FormatterPtr()); // documented callers never pass null; no effect
            } else if (o["again"].toBool() && lastFmt) {
                p->setFormatter(lastFmt);
                mFmt.clear();
                mFmt.push_back(lastFmt);
                noteInsert(2, 1);
                sameFormatterAgain = true;
            } else {
                auto h = QSharedPointer<RecFormatter>::create(nextId++);
                lastFmt = h;
                ids[h.data()] = h->id;
                p->setFormatter(h);
                mFmt.clear();
                mFmt.push_back(h);
                noteInsert(2, 1);
            }
        } else if (op == "sink") {
            if (isNull) {
                p->appendSink(SinkPtr());
            } else if (o["again"].toBool() && !everSink.empty()) {
                auto h = everSink[size_t(step) % everSink.size()];
                p->appendSink(h);
                mSink.push_back(h);
                noteInsert(3, mSink.size());
                sameInstanceAgain = true;
            } else {
                auto h = QSharedPointer<RecSink>::create(nextId++);
                everSink.push_back(h);
                ids[h.data()] = h->id;
                p->appendSink(h);
                mSink.push_back(h);
                noteInsert(3, mSink.size());
            }
        } else if (op == "pipe") {
            if (isNull) {
                p->appendPipeline(PipelinePtr());
            } else {
                auto child = PipelinePtr::create(o["scoped"].toBool());
                auto rec = QSharedPointer<RecHandler>::create(nextId++);
                child->append(rec);
                ids[child.data()] = rec->id;
                p->appendPipeline(child);
                mPipe.push_back(child);
                noteInsert(4, mPipe.size());
            }
        } else if (op == "clearAttr" || op == "clearTypeAttr") {
            clearedSomething |= !mAttr.empty();
            if (op == "clearAttr") p->clearAttrHandlers(); else p->clear(Handler::HandlerType::AttrHandler);
            mAttr.clear(); rank[0] = -1;
        } else if (op == "clearFilter" || op == "clearTypeFilter") {
            clearedSomething |= !mFilter.empty();
            if (op == "clearFilter") p->clearFilters(); else p->clear(Handler::HandlerType::Filter);
            mFilter.clear(); rank[1] = -1;
        } else if (op == "clearFmt" || op == "clearTypeFmt") {
            clearedSomething |= !mFmt.empty();
            if (op == "clearFmt") p->clearFormatters(); else p->clear(Handler::HandlerType::Formatter);
            mFmt.clear(); rank[2] = -1;
        } else if (op == "clearSink" || op == "clearTypeSink") {
            clearedSomething |= !mSink.empty();
            if (op == "clearSink") p->clearSinks(); else p->clear(Handler::HandlerType::Sink);
            mSink.clear(); rank[3] = -1;
        } else if (op == "clearPipe" || op == "clearTypePipe") {
            clearedSomething |= !mPipe.empty();
            if (op == "clearPipe") p->clearPipelines(); else p->clear(Handler::HandlerType::Pipeline);
            mPipe.clear(); rank[4] = -1;
        } else if (op == "clear") {
            p->clear();
            mAttr.clear(); mFilter.clear(); mFmt.clear(); mSink.clear(); mPipe.clear();
            for (int &r : rank) r = -1;
        } else {
            return "bad op in case file: " + op.toStdString();
        }

        // ---- invariant after every call: identity ----
        std::vector<HandlerPtr> expect;
        for (auto *l : { &mAttr, &mFilter, &mFmt, &mSink, &mPipe })
            for (auto &h : *l)
                expect.push_back(h);
        const QList<HandlerPtr> &got = static_cast<const Pipeline &>(*p).handlers();
        std::string expSeq, why;
        {
            QList<HandlerPtr> e;
            for (auto &h : expect) e.append(h);
            expSeq = classSeq(e);
        }
        bool same = size_t(got.size()) == expect.size();
        for (int i = 0; same && i < got.size(); i++)
            same = got[i].data() == expect[size_t(i)].data();
        if (!same) {
            std::string gi, ei;
            for (auto &h : got) gi += std::to_string(ids[h.data()]) + ",";
            for (auto &h : expect) ei += std::to_string(ids[h.data()]) + ",";
            return "after op #" + std::to_string(step) + " (" + op.toStdString() + "): handlers() is "
                    + classSeq(got) + " [" + gi + "] but class order with insertion order requires "
                    + expSeq + " [" + ei + "]";
        }
        // ---- execution order ----
        std::vector<int> trace;
        g_trace = &trace;
        QMessageLogContext ctx("f.cpp", 1, "f", "c");
        LogMessage m(QtInfoMsg, ctx, QStringLiteral("x"));
        p->process(m);
        g_trace = nullptr;
        std::vector<int> expTrace;
        for (auto &h : expect) expTrace.push_back(ids[h.data()]);
        if (trace != expTrace) {
            std::string gi, ei;
            for (int v : trace) gi += std::to_string(v) + ",";
            for (int v : expTrace) ei += std::to_string(v) + ",";
            return "after op #" + std::to_string(step) + ": execution order [" + gi + "] != [" + ei + "]";
        }
    }
    cls("target_simple", simple);
    cls("same_formatter_object_set_again", sameFormatterAgain);
    cls("same_handler_instance_appended_again", sameInstanceAgain);
    cls("lower_class_after_higher", lowerAfterHigher);
    cls("two_of_one_class", twoOfOneClass);
    cls("cleared_nonempty_class", clearedSomething);
    noteCase(c, lowerAfterHigher && twoOfOneClass);
    return "";
}

} // namespace

int main()
{
    return harnessMain("C17 sorted pipeline keeps class order", generate, run);
}
