// C16 — level / duplicate / regexp filters and sequence numbers follow their decision rules
// on every message sequence.
//
// Case:   { pool:[text...], msgs:[{type, t(index into pool), fmt?}], threshold, dropType,
//           typesA, typesB, re }
// Oracle: reference automata written from the property text (rank table; "drop iff equal to
//         the text seen immediately before, initially empty"; per-menu-entry hand-written
//         predicate on the RAW text; counter +1 per invocation, whatever its first value).
#include "common/gen.h"

#include "qtlogger/attrhandlers/seqnumberattr.h"
#include "qtlogger/filters/duplicatefilter.h"
#include "qtlogger/filters/functionfilter.h"
#include "qtlogger/filters/levelfilter.h"
#include "qtlogger/filters/regexpfilter.h"
#include "qtlogger/functionhandler.h"
#include "qtlogger/pipeline.h"

using namespace QtLogger;
using namespace verif;

namespace {

int rankOf(QtMsgType t)
{
    // debug < info < warning < critical < fatal
    switch (t) {
    case QtDebugMsg: return 0;
    case QtInfoMsg: return 1;
    case QtWarningMsg: return 2;
    case QtCriticalMsg: return 3;
    case QtFatalMsg: return 4;
    }
    return -1;
}

// ---- regexp menu: expression + independent predicate on UTF-16 text ----
bool isWord(QChar c) { ushort u = c.unicode(); return (u >= '0' && u <= '9') || (u >= 'a' && u <= 'z') || (u >= 'A' && u <= 'Z') || u == '_'; }
QString stripFinalNewline(const QString &t) { return t.endsWith(QChar('\n')) ? t.left(t.size() - 1) : t; }

struct ReEntry
{
    const char *expr;
    bool caseInsensitiveOption;
    std::function<bool(const QString &)> pred;
};

const std::vector<ReEntry> &reMenu()
{
    static const std::vector<ReEntry> m = {
        { "error", false, [](const QString &t) { return t.contains(QLatin1String("error")); } },
        { "^warn", false, [](const QString &t) { return t.startsWith(QLatin1String("warn")); } },
        { "done$", false, [](const QString &t) { return stripFinalNewline(t).endsWith(QLatin1String("done")); } },
        { "[0-9]+", false, [](const QString &t) { for (QChar c : t) if (c.unicode() >= '0' && c.unicode() <= '9') return true; return false; } },
        { "foo|bar", false, [](const QString &t) { return t.contains(QLatin1String("foo")) || t.contains(QLatin1String("bar")); } },
        // documented: exclude messages containing "password" (docs/api/filters.md, configuration.md)
        { "^(?!.*password).*$", false, [](const QString &t) {
             QString s = stripFinalNewline(t);
             if (s.contains(QChar('\n'))) return false; // '.' does not cross a line feed, '$' only at the end
             return !s.contains(QLatin1String("password")); } },
        { "^$", false, [](const QString &t) { return stripFinalNewline(t).isEmpty(); } },
        { "error", true, [](const QString &t) { return t.contains(QLatin1String("error"), Qt::CaseInsensitive); } },
        { "^[a-z]+$", false, [](const QString &t) {
             QString s = stripFinalNewline(t);
             if (s.isEmpty()) return false;
             for (QChar c : s) if (c.unicode() < 'a' || c.unicode() > 'z') return false;
             return true; } },
        { "x{2,}", false, [](const QString &t) { return t.contains(QLatin1String("xx")); } },
        { "\\bok\\b", false, [](const QString &t) {
             for (int i = 0; i + 1 < t.size(); i++)
                 if (t[i] == 'o' && t[i + 1] == 'k' && (i == 0 || !isWord(t[i - 1])) && (i + 2 >= t.size() || !isWord(t[i + 2])))
                     return true;
             return false; } },
        { "", false, [](const QString &) { return true; } },
        { "^debug: ", false, [](const QString &t) { return t.startsWith(QLatin1String("debug: ")); } },
        // numbered back-references: the expression needs its capture groups to be numbered
        { "(ab)\\1", false, [](const QString &t) { return t.contains(QLatin1String("abab")); } },
        { "^(a|x)\\1$", false, [](const QString &t) { const QString u = stripFinalNewline(t); return u == QLatin1String("aa") || u == QLatin1String("xx"); } },
        // character-class shorthands: without options they are the ASCII classes (a filter built from a string has no options)
        { "^\\w+$", false, [](const QString &t) {
             const QString u = stripFinalNewline(t);
             if (u.isEmpty()) return false;
             for (QChar c : u) if (!isWord(c)) return false;
             return true; } },
        { "\\d", false, [](const QString &t) { for (QChar c : t) if (c.unicode() >= '0' && c.unicode() <= '9') return true; return false; } },
        { "a\\sb", false, [](const QString &t) {
             for (int i = 0; i + 2 < t.size(); i++) {
                 const ushort m = t[i + 1].unicode();
                 if (t[i] == 'a' && t[i + 2] == 'b' && (m == ' ' || (m >= 9 && m <= 13))) return true;
             }
             return false; } },
        { "na\\Wve", false, [](const QString &t) {
             for (int i = 0; i + 4 < t.size(); i++)
                 if (t[i] == 'n' && t[i + 1] == 'a' && !isWord(t[i + 2]) && !t[i + 2].isSurrogate() && t[i + 3] == 'v' && t[i + 4] == 'e') return true;
             return false; } },
    };
    return m;
}

QJsonObject generate()
{
    QJsonObject c;
    // text pool: small, so that runs and alternations are frequent
    static const std::vector<QString> fixed = {
        QString(""), QString(), QStringLiteral("a"), QStringLiteral("A"), QStringLiteral("a "), QStringLiteral(" a"),
        QString(QChar(0x00e9)), QStringLiteral("e") + QChar(0x0301), QStringLiteral("error"), QStringLiteral("ERROR: x"),
        QStringLiteral("Error 42"), QStringLiteral("warn: disk"), QStringLiteral("all done"), QStringLiteral("done\n"),
        QStringLiteral("foo"), QStringLiteral("barfoo"), QStringLiteral("password=1"), QStringLiteral("a\npassword"),
        QStringLiteral("xx"), QStringLiteral("x x"), QStringLiteral("ok"), QStringLiteral("look"), QStringLiteral("it is ok."),
        QStringLiteral("debug: x"), QStringLiteral("abc"), QStringLiteral("\n"), QStringLiteral("line1\nline2"), QStringLiteral("ok_"),
        QStringLiteral("done"), QStringLiteral("7"), QStringLiteral("warn"), QStringLiteral("undone\n\n"),
        QStringLiteral("abab"), QStringLiteral("xabab."), QStringLiteral("aba"), QStringLiteral("aa"), QStringLiteral("ax"),
        // letters, digits and spaces outside ASCII next to \w \d \s \b \W
        QStringLiteral("caf") + QChar(0x00e9), QString(QChar(0x0663)), QStringLiteral("a") + QChar(0x00a0) + QStringLiteral("b"), QStringLiteral("a b"),
        QStringLiteral("a") + QChar(0x2003) + QStringLiteral("b"), QStringLiteral("na") + QChar(0x00ef) + QStringLiteral("ve"), QStringLiteral("na-ve"),
        QStringLiteral("ok") + QChar(0x0439), QChar(0x00e9) + QStringLiteral("ok"), QStringLiteral("abc_1"), QStringLiteral("x") + QChar(0x0967),
    };
    QJsonArray pool;
    int np = pick(1, 5);
    const int reChoice = pick(0, int(reMenu().size()) - 1);
    for (int i = 0; i < np; i++) {
        if (i == 0 && reChoice >= int(reMenu().size()) - 5 && chance(60)) { // shorthand-class expressions meet the texts that tell ASCII from Unicode classes
            pool.append(strToJson(fixed[size_t(pick(int(fixed.size()) - 11, int(fixed.size()) - 1))]));
        } else if (chance(75)) {
            pool.append(strToJson(fixed[size_t(pick(0, int(fixed.size()) - 1))]));
        } else {
            StrOpts o;
            o.maxLen = 8;
            pool.append(strToJson(genString(o)));
        }
    }
    c["pool"] = pool;
    QJsonArray msgs;
    int n = sized(1, 120) + (chance(10) ? 80 : 0);
    int prev = 0;
    for (int i = 0; i < n; i++) {
        QJsonObject m;
        int t = (i > 0 && chance(40)) ? prev : pick(0, np - 1);
        prev = t;
        m["t"] = t;
        m["type"] = pick(0, 4);
        if (chance(30)) // formatted text deliberately different from (or equal to another) raw text
            m["fmt"] = pick(0, np - 1);
        msgs.append(m);
    }
    c["msgs"] = msgs;
    c["dropType"] = pick(0, 4);
    c["typesA"] = pick(0, 31);
    c["sharedScoped"] = chance(50); // unscoped sub-pipelines leave the first number on the message when the shared counter sees it again
    c["typesB"] = pick(0, 31);
    c["re"] = reChoice;
    return c;
}

struct Msg
{
    QtMsgType type;
    QString text;
    QString fmt; // null = none
    bool hasFmt;
};

QString showText(const QString &t)
{
    if (t.isNull()) return "<null>";
    QString s = "'";
    for (QChar ch : t) {
        if (ch.unicode() < 0x20 || ch.unicode() > 0x7e) s += QString("\\u%1").arg(ch.unicode(), 4, 16, QChar('0'));
        else s += ch;
    }
    return s + "'";
}

std::string run(const QJsonObject &c)
{
    if (c.contains("levelTable")) { // replay of a failed cell of the exhaustive 5x5 table
        QMessageLogContext ctx0("f.cpp", 1, "f", "cat");
        int th = c["levelTable"].toArray()[0].toInt(), t = c["levelTable"].toArray()[1].toInt();
        LevelFilter f(kTypes[th]);
        LogMessage lm(kTypes[t], ctx0, QStringLiteral("m"));
        if (f.filter(lm) != (rankOf(kTypes[t]) >= rankOf(kTypes[th])))
            return std::string("level table: LevelFilter(") + typeName(kTypes[th]) + ") on " + typeName(kTypes[t]);
        return "";
    }
    std::vector<QString> pool;
    for (auto v : c["pool"].toArray())
        pool.push_back(strFromJson(v));
    std::vector<Msg> msgs;
    for (auto v : c["msgs"].toArray()) {
        QJsonObject o = v.toObject();
        Msg m;
        m.type = kTypes[o["type"].toInt()];
        m.text = pool[size_t(o["t"].toInt())];
        m.hasFmt = o.contains("fmt");
        m.fmt = m.hasFmt ? pool[size_t(o["fmt"].toInt())] : QString();
        msgs.push_back(m);
    }
    QMessageLogContext ctx("f.cpp", 1, "f", "cat");
    auto mk = [&](const Msg &m) {
        LogMessage lm(m.type, ctx, m.text);
        if (m.hasFmt) lm.setFormattedMessage(m.fmt);
        return lm;
    };

    // ---------- 1. level filter, all five thresholds on this sequence ----------
    for (int th = 0; th < 5; th++) {
        LevelFilter f(kTypes[th]);
        for (size_t i = 0; i < msgs.size(); i++) {
            LogMessage lm = mk(msgs[i]);
            bool got = f.filter(lm);
            bool exp = rankOf(msgs[i].type) >= rankOf(kTypes[th]);
            if (got != exp)
                return std::string("LevelFilter(") + typeName(kTypes[th]) + ") on a " + typeName(msgs[i].type) + " message: passed=" + (got ? "true" : "false");
        }
    }

    // ---------- 2. duplicate filter alone ----------
    bool sawRunAfterDifferent = false;
    {
        DuplicateFilter f;
        QString last(""); // initially the empty text
        int distinctSeen = 0;
        for (size_t i = 0; i < msgs.size(); i++) {
            LogMessage lm = mk(msgs[i]);
            bool got = f.filter(lm);
            bool same = (msgs[i].text == last);
            bool exp = !same;
            if (!same) { distinctSeen++; last = msgs[i].text; }
            else if (distinctSeen >= 1 && i > 0) sawRunAfterDifferent = true;
            if (got != exp)
                return "DuplicateFilter alone: message #" + std::to_string(i) + " " + showText(msgs[i].text).toStdString() + (exp ? " must pass (differs from the previous text)" : " must be dropped (equals the previous text)");
        }
    }

    // ---------- 3. duplicate filter behind a filter that drops some messages ----------
    bool droppedBetweenEqual = false;
    {
        QtMsgType dropT = kTypes[c["dropType"].toInt()];
        std::vector<size_t> delivered;
        size_t cur = 0;
        Pipeline p;
        p << FunctionFilterPtr::create([dropT](const LogMessage &m) { return m.type() != dropT; });
        p << DuplicateFilterPtr::create();
        p << FunctionHandlerPtr::create([&](LogMessage &) { delivered.push_back(cur); return true; });
        std::vector<size_t> expect;
        QString last("");
        bool haveLastIdx = false;
        size_t lastIdx = 0;
        for (size_t i = 0; i < msgs.size(); i++) {
            cur = i;
            LogMessage lm = mk(msgs[i]);
            p.process(lm);
            if (msgs[i].type == dropT) continue; // never reaches the duplicate filter
            if (msgs[i].text == last) {
                if (haveLastIdx && i - lastIdx > 1) droppedBetweenEqual = true;
                lastIdx = i;
                continue;
            }
            last = msgs[i].text;
            lastIdx = i; haveLastIdx = true;
            expect.push_back(i);
        }
        if (delivered != expect) {
            std::string s = "DuplicateFilter behind a dropping filter: delivered {";
            for (auto i : delivered) s += std::to_string(i) + ",";
            s += "} expected {";
            for (auto i : expect) s += std::to_string(i) + ",";
            return s + "}";
        }
    }

    // ---------- 4. one duplicate filter and one sequence counter shared by two sub-pipelines ----------
    bool sharedInvokedFromBoth = false;
    {
        const int ta = c["typesA"].toInt(), tb = c["typesB"].toInt();
        const bool sharedScoped = !c.contains("sharedScoped") || c["sharedScoped"].toBool();
        cls("shared_handlers_in_unscoped_pipelines", !sharedScoped);
        auto dup = DuplicateFilterPtr::create();
        auto seq = SeqNumberAttrPtr::create();
        struct Obs { char side; size_t idx; int seq; bool afterDup; };
        std::vector<Obs> got, exp;
        size_t cur = 0;
        auto mkSide = [&](char side, int mask) {
            auto sp = PipelinePtr::create(sharedScoped);
            *sp << FunctionFilterPtr::create([mask](const LogMessage &m) { return (mask >> typeIndex(m.type())) & 1; });
            *sp << seq;
            *sp << FunctionHandlerPtr::create([&, side](LogMessage &m) { got.push_back({ side, cur, m.attribute("seq_number").toInt(), false }); return true; });
            *sp << dup;
            *sp << FunctionHandlerPtr::create([&, side](LogMessage &m) { got.push_back({ side, cur, m.attribute("seq_number").toInt(), true }); return true; });
            return sp;
        };
        Pipeline root;
        root << mkSide('A', ta) << mkSide('B', tb);
        int counter = 0;
        QString last("");
        bool usedA = false, usedB = false;
        for (size_t i = 0; i < msgs.size(); i++) {
            cur = i;
            LogMessage lm = mk(msgs[i]);
            root.process(lm);
            for (char side : { 'A', 'B' }) {
                int mask = side == 'A' ? ta : tb;
                if (!((mask >> typeIndex(msgs[i].type)) & 1)) continue;
                (side == 'A' ? usedA : usedB) = true;
                int s = counter++; // numbered whether or not a later handler drops it
                exp.push_back({ side, i, s, false });
                if (msgs[i].text == last) continue;
                last = msgs[i].text;
                exp.push_back({ side, i, s, true });
            }
        }
        sharedInvokedFromBoth = usedA && usedB;
        // the property fixes the step (+1 per message seen), not the first number
        const int base = got.empty() ? 0 : got[0].seq;
        for (auto &o : exp) o.seq += base;
        bool same = got.size() == exp.size();
        for (size_t i = 0; same && i < got.size(); i++)
            same = got[i].side == exp[i].side && got[i].idx == exp[i].idx && got[i].seq == exp[i].seq && got[i].afterDup == exp[i].afterDup;
        if (!same) {
            auto dump = [](const std::vector<Obs> &v) {
                std::string s;
                for (auto &o : v) s += std::string(1, o.side) + std::to_string(o.idx) + (o.afterDup ? "+" : "") + ":" + std::to_string(o.seq) + " ";
                return s;
            };
            return "shared DuplicateFilter/SeqNumberAttr (side msg[+ = passed dup]:seq): got " + dump(got) + "| expected " + dump(exp);
        }
    }

    // ---------- 5. regular-expression filter: decides on the raw text ----------
    int reMatches = 0, reRejects = 0;
    {
        const ReEntry &e = reMenu()[size_t(c["re"].toInt())];
        QSharedPointer<RegExpFilter> f = e.caseInsensitiveOption
                ? QSharedPointer<RegExpFilter>::create(QRegularExpression(QString::fromLatin1(e.expr), QRegularExpression::CaseInsensitiveOption))
                : QSharedPointer<RegExpFilter>::create(QString::fromLatin1(e.expr));
        for (size_t i = 0; i < msgs.size(); i++) {
            LogMessage lm = mk(msgs[i]);
            bool got = f->filter(lm);
            bool exp = e.pred(msgs[i].text);
            (exp ? reMatches : reRejects)++;
            if (got != exp)
                return std::string("RegExpFilter(\"") + e.expr + "\"" + (e.caseInsensitiveOption ? ", CaseInsensitive" : "") + ") on raw text "
                        + showText(msgs[i].text).toStdString() + (msgs[i].hasFmt ? (" (formatted text " + showText(msgs[i].fmt).toStdString() + ")") : std::string())
                        + ": passed=" + (got ? "true" : "false") + ", the expression " + (exp ? "matches" : "does not match") + " the message text";
        }
    }

    // ---------- 6. sequence numbers: consecutive from 0, custom name, before a dropping filter ----------
    {
        SeqNumberAttr s(QStringLiteral("n"));
        long long first = 0;
        for (size_t i = 0; i < msgs.size(); i++) {
            LogMessage lm = mk(msgs[i]);
            s.process(lm);
            QVariant v = lm.attribute("n");
            bool ok = false;
            long long n = v.toLongLong(&ok);
            if (i == 0) first = n; // the property fixes the step, not the first number
            if (!v.isValid() || !ok || n != first + (long long)i)
                return "SeqNumberAttr: message #" + std::to_string(i) + " numbered " + v.toString().toStdString() + " after the first was numbered " + std::to_string(first);
        }
    }

    bool hasFmtDiff = false;
    for (auto &m : msgs) if (m.hasFmt && m.fmt != m.text) hasFmtDiff = true;
    cls("run_after_different_text", sawRunAfterDifferent);
    cls("dropped_message_between_equal_texts", droppedBetweenEqual);
    cls("shared_handlers_invoked_from_both_pipelines", sharedInvokedFromBoth);
    cls("regexp_matched_and_rejected", reMatches > 0 && reRejects > 0);
    cls("formatted_differs_from_raw", hasFmtDiff);
    count("regexp_entry_" + std::to_string(c["re"].toInt()));
    noteCase(c, sawRunAfterDifferent && droppedBetweenEqual && sharedInvokedFromBoth);
    return "";
}

} // namespace

int main()
{
    // the 5x5 level table, exhaustively, on every run
    QMessageLogContext ctx("f.cpp", 1, "f", "cat");
    for (int th = 0; th < 5; th++)
        for (int t = 0; t < 5; t++) {
            LevelFilter f(kTypes[th]);
            LogMessage lm(kTypes[t], ctx, QStringLiteral("m"));
            if (f.filter(lm) != (rankOf(kTypes[t]) >= rankOf(kTypes[th]))) {
                QJsonObject cs;
                cs["levelTable"] = QJsonArray { th, t };
                failCase(cs, std::string("level table: LevelFilter(") + typeName(kTypes[th]) + ") on " + typeName(kTypes[t]));
                dumpStats(false);
                printf("level table violated\n");
                return 1;
            }
        }
    count("level_table_cells_checked", 25);
    return harnessMain("C16 filters and counters follow their decision rules", generate, run);
}
