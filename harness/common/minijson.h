// A small strict JSON parser (RFC 8259) written for these checks; no Qt inside, so it is an
// independent judge of what QJsonDocument (or any future hand-written serializer) emits.
// Strict means: exactly one value, nothing but white space after it, only the four JSON
// white-space characters, no raw control characters in strings, only the defined escapes,
// \u surrogates must pair up, input must be well-formed UTF-8, no duplicate object keys,
// numbers per the grammar (no leading zeros, no '+', no bare '.', no NaN/Infinity).
#pragma once

#include <cmath>
#include <cstdint>
#include <cctype>
#include <cstdlib>
#include <cstring>
#include <string>
#include <utility>
#include <vector>

namespace minijson {

struct Value
{
    enum Type { Null, Bool, Number, String, Array, Object } type = Null;
    bool b = false;
    double num = 0;
    std::string numText;
    std::u16string str;
    std::vector<Value> arr;
    std::vector<std::pair<std::u16string, Value>> obj;

    const Value *get(const std::u16string &key) const
    {
        for (auto &kv : obj)
            if (kv.first == key)
                return &kv.second;
        return nullptr;
    }
    const Value *get(const char *asciiKey) const
    {
        std::u16string k;
        for (const char *p = asciiKey; *p; ++p)
            k.push_back(char16_t(*p));
        return get(k);
    }
};

class Parser
{
public:
    Parser(const std::string &text) : s(text) { }

    // returns true and fills out on success; on failure error() says why and where
    bool parse(Value &out)
    {
        pos = 0;
        err.clear();
        if (!validUtf8()) return false;
        skipWs();
        if (!value(out, 0)) return false;
        skipWs();
        if (pos != s.size()) return fail("trailing characters after the JSON value");
        return true;
    }
    const std::string &error() const { return err; }

private:
    const std::string &s;
    size_t pos = 0;
    std::string err;

    bool fail(const std::string &m)
    {
        if (err.empty()) err = m + " at byte " + std::to_string(pos);
        return false;
    }
    void skipWs()
    {
        while (pos < s.size() && (s[pos] == ' ' || s[pos] == '\t' || s[pos] == '\n' || s[pos] == '\r')) pos++;
    }
    bool validUtf8()
    {
        size_t i = 0, n = s.size();
        while (i < n) {
            unsigned char c = (unsigned char)s[i];
            int len;
            uint32_t cp;
            if (c < 0x80) { i++; continue; }
            else if ((c & 0xe0) == 0xc0) { len = 2; cp = c & 0x1f; }
            else if ((c & 0xf0) == 0xe0) { len = 3; cp = c & 0x0f; }
            else if ((c & 0xf8) == 0xf0) { len = 4; cp = c & 0x07; }
            else { pos = i; return fail("invalid UTF-8 lead byte"); }
            if (i + len > n) { pos = i; return fail("truncated UTF-8 sequence"); }
            for (int k = 1; k < len; k++) {
                unsigned char cc = (unsigned char)s[i + k];
                if ((cc & 0xc0) != 0x80) { pos = i; return fail("invalid UTF-8 continuation byte"); }
                cp = (cp << 6) | (cc & 0x3f);
            }
            if ((len == 2 && cp < 0x80) || (len == 3 && cp < 0x800) || (len == 4 && cp < 0x10000)) { pos = i; return fail("overlong UTF-8 sequence"); }
            if (cp > 0x10ffff || (cp >= 0xd800 && cp <= 0xdfff)) { pos = i; return fail("UTF-8 encodes a surrogate or a value above U+10FFFF"); }
            i += len;
        }
        return true;
    }
    static void appendCp(std::u16string &o, uint32_t cp)
    {
        if (cp >= 0x10000) {
            cp -= 0x10000;
            o.push_back(char16_t(0xd800 + (cp >> 10)));
            o.push_back(char16_t(0xdc00 + (cp & 0x3ff)));
        } else {
            o.push_back(char16_t(cp));
        }
    }
    bool hex4(uint32_t &v)
    {
        if (pos + 4 > s.size()) return fail("truncated \\u escape");
        v = 0;
        for (int i = 0; i < 4; i++) {
            char c = s[pos++];
            v <<= 4;
            if (c >= '0' && c <= '9') v |= c - '0';
            else if (c >= 'a' && c <= 'f') v |= c - 'a' + 10;
            else if (c >= 'A' && c <= 'F') v |= c - 'A' + 10;
            else return fail("bad hex digit in \\u escape");
        }
        return true;
    }
    bool string(std::u16string &out)
    {
        if (pos >= s.size() || s[pos] != '"') return fail("expected '\"'");
        pos++;
        out.clear();
        while (true) {
            if (pos >= s.size()) return fail("unterminated string");
            unsigned char c = (unsigned char)s[pos];
            if (c == '"') { pos++; return true; }
            if (c < 0x20) return fail("raw control character inside a string");
            if (c == '\\') {
                pos++;
                if (pos >= s.size()) return fail("unterminated escape");
                char e = s[pos++];
                switch (e) {
                case '"': out.push_back(u'"'); break;
                case '\\': out.push_back(u'\\'); break;
                case '/': out.push_back(u'/'); break;
                case 'b': out.push_back(u'\b'); break;
                case 'f': out.push_back(u'\f'); break;
                case 'n': out.push_back(u'\n'); break;
                case 'r': out.push_back(u'\r'); break;
                case 't': out.push_back(u'\t'); break;
                case 'u': {
                    uint32_t v;
                    if (!hex4(v)) return false;
                    if (v >= 0xd800 && v <= 0xdbff) {
                        if (pos + 1 < s.size() && s[pos] == '\\' && s[pos + 1] == 'u') {
                            pos += 2;
                            uint32_t lo;
                            if (!hex4(lo)) return false;
                            if (lo < 0xdc00 || lo > 0xdfff) return fail("high surrogate escape not followed by a low surrogate");
                            out.push_back(char16_t(v));
                            out.push_back(char16_t(lo));
                        } else {
                            return fail("lone high surrogate escape");
                        }
                    } else if (v >= 0xdc00 && v <= 0xdfff) {
                        return fail("lone low surrogate escape");
                    } else {
                        out.push_back(char16_t(v));
                    }
                    break;
                }
                default: return fail("undefined escape sequence");
                }
                continue;
            }
            // one UTF-8 sequence (validated up front)
            uint32_t cp;
            int len;
            if (c < 0x80) { cp = c; len = 1; }
            else if ((c & 0xe0) == 0xc0) { cp = c & 0x1f; len = 2; }
            else if ((c & 0xf0) == 0xe0) { cp = c & 0x0f; len = 3; }
            else { cp = c & 0x07; len = 4; }
            for (int k = 1; k < len; k++) cp = (cp << 6) | ((unsigned char)s[pos + k] & 0x3f);
            pos += len;
            appendCp(out, cp);
        }
    }
    bool number(Value &out)
    {
        size_t start = pos;
        if (pos < s.size() && s[pos] == '-') pos++;
        if (pos >= s.size()) return fail("truncated number");
        if (s[pos] == '0') pos++;
        else if (s[pos] >= '1' && s[pos] <= '9') { while (pos < s.size() && isdigit((unsigned char)s[pos])) pos++; }
        else return fail("bad number");
        if (pos < s.size() && s[pos] == '.') {
            pos++;
            if (pos >= s.size() || !isdigit((unsigned char)s[pos])) return fail("digit expected after '.'");
            while (pos < s.size() && isdigit((unsigned char)s[pos])) pos++;
        }
        if (pos < s.size() && (s[pos] == 'e' || s[pos] == 'E')) {
            pos++;
            if (pos < s.size() && (s[pos] == '+' || s[pos] == '-')) pos++;
            if (pos >= s.size() || !isdigit((unsigned char)s[pos])) return fail("digit expected in exponent");
            while (pos < s.size() && isdigit((unsigned char)s[pos])) pos++;
        }
        out.type = Value::Number;
        out.numText = s.substr(start, pos - start);
        out.num = strtod(out.numText.c_str(), nullptr);
        return true;
    }
    bool literal(const char *w)
    {
        size_t n = strlen(w);
        if (s.compare(pos, n, w) != 0) return fail(std::string("expected ") + w);
        pos += n;
        return true;
    }
    bool value(Value &out, int depth)
    {
        if (depth > 200) return fail("nesting too deep");
        if (pos >= s.size()) return fail("value expected");
        char c = s[pos];
        if (c == '{') {
            pos++;
            out.type = Value::Object;
            skipWs();
            if (pos < s.size() && s[pos] == '}') { pos++; return true; }
            while (true) {
                skipWs();
                std::u16string key;
                if (!string(key)) return false;
                if (out.get(key)) return fail("duplicate object key");
                skipWs();
                if (pos >= s.size() || s[pos] != ':') return fail("expected ':'");
                pos++;
                skipWs();
                Value v;
                if (!value(v, depth + 1)) return false;
                out.obj.emplace_back(key, std::move(v));
                skipWs();
                if (pos < s.size() && s[pos] == ',') { pos++; continue; }
                if (pos < s.size() && s[pos] == '}') { pos++; return true; }
                return fail("expected ',' or '}'");
            }
        }
        if (c == '[') {
            pos++;
            out.type = Value::Array;
            skipWs();
            if (pos < s.size() && s[pos] == ']') { pos++; return true; }
            while (true) {
                skipWs();
                Value v;
                if (!value(v, depth + 1)) return false;
                out.arr.push_back(std::move(v));
                skipWs();
                if (pos < s.size() && s[pos] == ',') { pos++; continue; }
                if (pos < s.size() && s[pos] == ']') { pos++; return true; }
                return fail("expected ',' or ']'");
            }
        }
        if (c == '"') { out.type = Value::String; return string(out.str); }
        if (c == 't') { out.type = Value::Bool; out.b = true; return literal("true"); }
        if (c == 'f') { out.type = Value::Bool; out.b = false; return literal("false"); }
        if (c == 'n') { out.type = Value::Null; return literal("null"); }
        if (c == '-' || (c >= '0' && c <= '9')) return number(out);
        return fail("unexpected character");
    }
};

} // namespace minijson
