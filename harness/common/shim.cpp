// libc interposition from inside the harness executable (no LD_PRELOAD, no source hooks):
//   * virtual wall clock: gettimeofday / clock_gettime(CLOCK_REALTIME*) / time follow g_ms
//   * counting, crash injection and error injection on the mutating file-system calls that
//     libQt5Core reaches through its PLT (open64 for writing, write, close, rename, renameat2,
//     link, linkat, unlink, ftruncate(64), sendfile)
// See shim.h for the control interface.
#include "shim.h"

#include <dlfcn.h>
#include <errno.h>
#include <fcntl.h>
#include <stdarg.h>
#include <stdio.h>
#include <string.h>
#include <sys/sendfile.h>
#include <sys/stat.h>
#include <sys/time.h>
#include <sys/types.h>
#include <time.h>
#include <unistd.h>

namespace {

bool g_clockOn = false;
long long g_ms = 0;

bool g_armed = false;
int g_count = 0;
int g_crashAt = -1;   // _exit(77) right before the k-th counted call
int g_failAt = -1;    // the k-th counted call fails with g_failErrno instead of running
int g_failErrno = 0;
int g_traceFd = -1;
int g_stickyErrno = 0; // see verif_shim_sticky
void (*g_unlinkHook)(const char *) = nullptr;

template<typename F>
F real(const char *name)
{
    return reinterpret_cast<F>(dlsym(RTLD_NEXT, name));
}

ssize_t rawWrite(int fd, const void *b, size_t n)
{
    static auto r = real<ssize_t (*)(int, const void *, size_t)>("write");
    return r(fd, b, n);
}

// returns true when the call must fail (errno set)
bool note(const char *what, const char *path)
{
    if (!g_armed)
        return false;
    ++g_count;
    if (g_traceFd >= 0) {
        char buf[512];
        int n = snprintf(buf, sizeof buf, "%d %s %s\n", g_count, what, path ? path : "");
        rawWrite(g_traceFd, buf, size_t(n));
    }
    if (g_count == g_crashAt)
        _exit(77);
    if (g_count == g_failAt) {
        errno = g_failErrno;
        return true;
    }
    if (g_stickyErrno) {
        const bool dirOp = !strcmp(what, "rename") || !strcmp(what, "renameat2") || !strcmp(what, "link") || !strcmp(what, "linkat") || !strcmp(what, "unlink");
        bool creates = false;
        if (!strcmp(what, "open-create") && path) {
            struct stat st;
            creates = ::stat(path, &st) != 0; // the file does not exist yet: creating it needs a writable directory
        }
        if (dirOp || creates) {
            errno = g_stickyErrno;
            return true;
        }
    }
    return false;
}

bool interesting(int fd) { return fd > 2 && fd != g_traceFd; }

} // namespace

// ------------------------------------------------------------------------------------ control
void verif_clock_enable(bool on) { g_clockOn = on; }
void verif_clock_set(long long ms) { g_ms = ms; }
long long verif_clock_get() { return g_ms; }
void verif_shim_arm(int crashAt, int failAt, int failErrno, int traceFd)
{
    g_count = 0;
    g_crashAt = crashAt;
    g_failAt = failAt;
    g_failErrno = failErrno;
    g_traceFd = traceFd;
    g_armed = true;
}
int verif_shim_disarm()
{
    g_armed = false;
    g_stickyErrno = 0;
    return g_count;
}
void verif_shim_sticky(int err) { g_stickyErrno = err; }
void verif_shim_on_unlink(void (*hook)(const char *)) { g_unlinkHook = hook; }

// ------------------------------------------------------------------------------------ clock
extern "C" int gettimeofday(struct timeval *tv, void *tz) noexcept
{
    if (!g_clockOn) {
        static auto r = real<int (*)(struct timeval *, void *)>("gettimeofday");
        return r(tv, tz);
    }
    tv->tv_sec = g_ms / 1000;
    tv->tv_usec = (g_ms % 1000) * 1000;
    return 0;
}

extern "C" int clock_gettime(clockid_t c, struct timespec *ts) noexcept
{
    static auto r = real<int (*)(clockid_t, struct timespec *)>("clock_gettime");
    if (!g_clockOn || (c != CLOCK_REALTIME && c != CLOCK_REALTIME_COARSE))
        return r(c, ts);
    ts->tv_sec = g_ms / 1000;
    ts->tv_nsec = (g_ms % 1000) * 1000000;
    return 0;
}

extern "C" time_t time(time_t *t) noexcept
{
    if (!g_clockOn) {
        static auto r = real<time_t (*)(time_t *)>("time");
        return r(t);
    }
    time_t v = g_ms / 1000;
    if (t) *t = v;
    return v;
}

// ------------------------------------------------------------------------------------ file calls
extern "C" ssize_t write(int fd, const void *b, size_t n)
{
    if (interesting(fd) && note("write", ""))
        return -1;
    return rawWrite(fd, b, n);
}

extern "C" int close(int fd)
{
    static auto r = real<int (*)(int)>("close");
    if (interesting(fd) && g_armed) {
        // a failing close still releases the descriptor; only count / crash here
        bool fail = note("close", "");
        int rc = r(fd);
        if (fail) { errno = g_failErrno; return -1; }
        return rc;
    }
    return r(fd);
}

extern "C" int open64(const char *p, int fl, ...)
{
    static auto r = real<int (*)(const char *, int, ...)>("open64");
    mode_t m = 0;
    if (fl & (O_CREAT | O_TMPFILE)) {
        va_list a;
        va_start(a, fl);
        m = va_arg(a, mode_t);
        va_end(a);
    }
    if ((fl & O_CREAT) || (fl & O_ACCMODE) != O_RDONLY)
        if (note((fl & O_CREAT) ? "open-create" : "open-write", p))
            return -1;
    return r(p, fl, m);
}

extern "C" int rename(const char *o, const char *n) noexcept
{
    static auto r = real<int (*)(const char *, const char *)>("rename");
    if (note("rename", n)) return -1;
    return r(o, n);
}

extern "C" int renameat2(int a, const char *o, int b, const char *n, unsigned f) noexcept
{
    static auto r = real<int (*)(int, const char *, int, const char *, unsigned)>("renameat2");
    if (note("renameat2", n)) return -1;
    return r(a, o, b, n, f);
}

extern "C" int link(const char *o, const char *n) noexcept
{
    static auto r = real<int (*)(const char *, const char *)>("link");
    if (note("link", n)) return -1;
    return r(o, n);
}

extern "C" int linkat(int a, const char *o, int b, const char *n, int f) noexcept
{
    static auto r = real<int (*)(int, const char *, int, const char *, int)>("linkat");
    if (note("linkat", n)) return -1;
    return r(a, o, b, n, f);
}

extern "C" int unlink(const char *p) noexcept
{
    static auto r = real<int (*)(const char *)>("unlink");
    if (note("unlink", p)) return -1;
    if (g_unlinkHook) g_unlinkHook(p);
    return r(p);
}

extern "C" int ftruncate(int fd, off_t len) noexcept
{
    static auto r = real<int (*)(int, off_t)>("ftruncate");
    if (interesting(fd) && note("ftruncate", "")) return -1;
    return r(fd, len);
}

extern "C" int ftruncate64(int fd, off64_t len) noexcept
{
    static auto r = real<int (*)(int, off64_t)>("ftruncate64");
    if (interesting(fd) && note("ftruncate64", "")) return -1;
    return r(fd, len);
}

extern "C" ssize_t sendfile(int out, int in, off_t *off, size_t n) noexcept
{
    static auto r = real<ssize_t (*)(int, int, off_t *, size_t)>("sendfile");
    if (interesting(out) && note("sendfile", "")) return -1;
    return r(out, in, off, n);
}
