// Observation side of the rotating-file-sink checks: directory snapshots, independent gzip
// validation (zlib's gzip decoder + own RFC 1952 header walk), rotated-name parser.
#pragma once

#include <QByteArray>
#include <QString>

#include <dirent.h>
#include <fcntl.h>
#include <sys/stat.h>
#include <unistd.h>
#include <zlib.h>

#include <algorithm>
#include <cstring>
#include <map>
#include <string>
#include <vector>

namespace rotmodel {

inline bool readWhole(const std::string &path, std::string &out)
{
    out.clear();
    int fd = ::open(path.c_str(), O_RDONLY | O_CLOEXEC);
    if (fd < 0) return false;
    char buf[1 << 16];
    for (;;) {
        ssize_t n = ::read(fd, buf, sizeof buf);
        if (n <= 0) break;
        out.append(buf, size_t(n));
    }
    ::close(fd);
    return true;
}

// Complete, single-member gzip file? Fills `out` with the inflated bytes; on failure `err` says why.
inline bool gunzipStrict(const std::string &in, std::string &out, std::string &err)
{
    out.clear();
    if (in.size() < 18) { err = "shorter than the smallest gzip member (" + std::to_string(in.size()) + " bytes)"; return false; }
    const unsigned char *p = reinterpret_cast<const unsigned char *>(in.data());
    if (p[0] != 0x1f || p[1] != 0x8b) { err = "bad magic"; return false; }
    if (p[2] != 8) { err = "compression method is not deflate"; return false; }
    if (p[3] & 0xe0) { err = "reserved FLG bits set"; return false; }
    z_stream z;
    memset(&z, 0, sizeof z);
    if (inflateInit2(&z, 16 + MAX_WBITS) != Z_OK) { err = "inflateInit2 failed"; return false; }
    z.next_in = const_cast<Bytef *>(reinterpret_cast<const Bytef *>(in.data()));
    z.avail_in = uInt(in.size());
    std::vector<char> buf(1 << 16);
    int rc;
    do {
        z.next_out = reinterpret_cast<Bytef *>(buf.data());
        z.avail_out = uInt(buf.size());
        rc = inflate(&z, Z_NO_FLUSH);
        if (rc != Z_OK && rc != Z_STREAM_END) {
            err = std::string("inflate: ") + (z.msg ? z.msg : "error ") + " (code " + std::to_string(rc) + ")";
            inflateEnd(&z);
            return false;
        }
        out.append(buf.data(), buf.size() - z.avail_out);
        if (rc == Z_OK && z.avail_in == 0 && z.avail_out != 0) {
            err = "truncated gzip stream";
            inflateEnd(&z);
            return false;
        }
    } while (rc != Z_STREAM_END);
    const bool trailing = z.avail_in != 0;
    inflateEnd(&z);
    if (trailing) { err = "bytes after the end of the gzip member"; return false; }
    // trailer, independently of zlib: CRC-32 and ISIZE (little endian)
    const size_t n = in.size();
    auto le32 = [&](size_t off) { return uint32_t(p[off]) | uint32_t(p[off + 1]) << 8 | uint32_t(p[off + 2]) << 16 | uint32_t(p[off + 3]) << 24; };
    const uint32_t crc = uint32_t(crc32(crc32(0L, Z_NULL, 0), reinterpret_cast<const Bytef *>(out.data()), uInt(out.size())));
    if (le32(n - 8) != crc) { err = "CRC-32 field does not match the inflated data"; return false; }
    if (le32(n - 4) != uint32_t(out.size() & 0xffffffffu)) { err = "ISIZE field does not match the inflated length"; return false; }
    return true;
}

struct NameScheme
{
    std::string base, suffix; // "app", "log"
    explicit NameScheme(const std::string &fileName)
    {
        size_t dot = fileName.rfind('.');
        if (dot == std::string::npos) { base = fileName; suffix.clear(); }
        else { base = fileName.substr(0, dot); suffix = fileName.substr(dot + 1); }
    }
    // <base>.<yyyy-MM-dd>.<index>[.<suffix>][.gz]
    bool parse(const std::string &name, std::string *date, long long *index, bool *gz) const
    {
        std::string n = name;
        *gz = false;
        if (n.size() > 3 && n.compare(n.size() - 3, 3, ".gz") == 0) { *gz = true; n.resize(n.size() - 3); }
        if (!suffix.empty()) {
            if (n.size() <= suffix.size() + 1 || n.compare(n.size() - suffix.size() - 1, suffix.size() + 1, "." + suffix) != 0) return false;
            n.resize(n.size() - suffix.size() - 1);
        }
        if (n.size() < base.size() + 1 + 10 + 1 + 1 || n.compare(0, base.size() + 1, base + ".") != 0) return false;
        const std::string rest = n.substr(base.size() + 1);
        static const char shape[] = "dddd-dd-dd.";
        for (int i = 0; i < 11; i++) {
            if (shape[i] == 'd') { if (!isdigit((unsigned char)rest[size_t(i)])) return false; }
            else if (rest[size_t(i)] != shape[i]) return false;
        }
        const std::string idx = rest.substr(11);
        if (idx.empty() || idx.size() > 12) return false;
        for (char c : idx) if (!isdigit((unsigned char)c)) return false;
        *date = rest.substr(0, 10);
        *index = atoll(idx.c_str());
        return true;
    }
    std::string rotatedName(const std::string &date, long long index, bool gz) const
    {
        return base + "." + date + "." + std::to_string(index) + (suffix.empty() ? "" : "." + suffix) + (gz ? ".gz" : "");
    }
};

struct FileSnap
{
    std::string name;
    bool active = false, rotated = false, gz = false;
    std::string date;
    long long index = 0;
    std::string raw;      // bytes on disk
    std::string content;  // inflated for .gz (empty when the gzip is invalid)
    bool gzValid = true;
    std::string gzError;
    ino_t ino = 0;
    long long a = -1, b = -1; // resolved record range [a,b)
};

inline std::vector<std::string> listDir(const std::string &dir)
{
    std::vector<std::string> names;
    DIR *d = opendir(dir.c_str());
    if (!d) return names;
    while (struct dirent *e = readdir(d)) {
        std::string n = e->d_name;
        if (n == "." || n == "..") continue;
        names.push_back(n);
    }
    closedir(d);
    std::sort(names.begin(), names.end());
    return names;
}

} // namespace rotmodel
