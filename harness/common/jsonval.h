// Generated attribute values (plain JSON description) <-> QVariant <-> expected minijson value.
//   {"s": <str>} {"i": n} {"ll": "<decimal>"} {"ull": "<decimal>"} {"d": x} {"b": t/f} {"inv": 1}
//   {"list": [v...]} {"map": [[key, v]...]} {"hash": [[key, v]...]}
#pragma once

#include "gen.h"
#include "minijson.h"

#include <QVariant>

namespace verif {

inline std::u16string u16(const QString &s)
{
    return std::u16string(reinterpret_cast<const char16_t *>(s.utf16()), size_t(s.size()));
}
inline QString fromU16(const std::u16string &s)
{
    return QString::fromUtf16(reinterpret_cast<const ushort *>(s.data()), int(s.size()));
}
inline QString showU16(const std::u16string &s)
{
    QString o = "\"";
    for (char16_t ch : s) {
        if (ch < 0x20 || ch > 0x7e) o += QString("\\u%1").arg(uint(ch), 4, 16, QChar('0'));
        else o += QChar(ushort(ch));
    }
    return o + "\"";
}

inline QJsonObject genValue(int depth, const StrOpts &so, unsigned *usedClasses, bool *nested)
{
    QJsonObject o;
    int r = pick(0, 99);
    if (depth > 0 && r >= 80) {
        if (nested) *nested = true;
        int n = pick(0, 3);
        if (r < 90) {
            QJsonArray a;
            for (int i = 0; i < n; i++) a.append(genValue(depth - 1, so, usedClasses, nested));
            o["list"] = a;
        } else {
            QJsonArray a;
            QStringList keys;
            for (int i = 0; i < n; i++) {
                StrOpts ko = so; ko.maxLen = 4; ko.allowNull = false;
                QString k = genString(ko, usedClasses);
                if (keys.contains(k)) continue;
                keys << k;
                a.append(QJsonArray { strToJson(k), genValue(depth - 1, so, usedClasses, nested) });
            }
            o[r < 95 ? "map" : "hash"] = a;
        }
        return o;
    }
    if (r < 45) o["s"] = strToJson(genString(so, usedClasses));
    else if (r < 58) o["i"] = pick(0, 1) ? pick(-1000, 1000) : *rc::gen::arbitrary<int>();
    else if (r < 64) o["ll"] = QString::number(pick64(-(1LL << 53), (1LL << 53)));
    else if (r < 68) o["ull"] = QString::number(pick64(0, (1LL << 53)));
    else if (r < 76) {
        double d;
        int w = pick(0, 5);
        if (w == 0) d = 0.0;
        else if (w == 1) d = -0.0;
        else if (w == 2) d = pick(-100000, 100000) / 8.0;
        else if (w == 3) d = pick(-1000, 1000) * 1e300 / 1000.0;
        else if (w == 4) d = pick(1, 1000) * 4.9406564584124654e-324 * 1e10;
        else { d = *rc::gen::arbitrary<double>(); if (!std::isfinite(d)) d = 1.5; }
        o["d"] = QString::number(d, 'g', 17); // text keeps the case file exact
    } else if (r < 90) o["b"] = bool(pick(0, 1));
    else o["inv"] = 1;
    return o;
}

inline QVariant toVariant(const QJsonObject &o)
{
    if (o.contains("s")) return QVariant(strFromJson(o["s"]));
    if (o.contains("i")) return QVariant(o["i"].toInt());
    if (o.contains("ll")) return QVariant(o["ll"].toString().toLongLong());
    if (o.contains("ull")) return QVariant(o["ull"].toString().toULongLong());
    if (o.contains("d")) return QVariant(o["d"].toString().toDouble());
    if (o.contains("b")) return QVariant(o["b"].toBool());
    if (o.contains("list")) {
        QVariantList l;
        for (auto v : o["list"].toArray()) l.append(toVariant(v.toObject()));
        return l;
    }
    if (o.contains("map")) {
        QVariantMap m;
        for (auto e : o["map"].toArray()) m.insert(strFromJson(e.toArray()[0]), toVariant(e.toArray()[1].toObject()));
        return m;
    }
    if (o.contains("hash")) {
        QVariantHash m;
        for (auto e : o["hash"].toArray()) m.insert(strFromJson(e.toArray()[0]), toVariant(e.toArray()[1].toObject()));
        return m;
    }
    return QVariant();
}

// compares a parsed JSON value with the generated description; returns "" or the difference
inline std::string sameValue(const minijson::Value &v, const QJsonObject &o, const std::string &path)
{
    using V = minijson::Value;
    auto num = [&](double want) -> std::string {
        if (v.type != V::Number) return path + ": expected a number";
        if (!(v.num == want)) return path + ": number " + v.numText + " != " + QString::number(want, 'g', 17).toStdString();
        return "";
    };
    if (o.contains("s")) {
        if (v.type != V::String) return path + ": expected a string";
        if (v.str != u16(strFromJson(o["s"])))
            return path + ": string " + showU16(v.str).toStdString() + " != " + showU16(u16(strFromJson(o["s"]))).toStdString();
        return "";
    }
    if (o.contains("i")) return num(double(o["i"].toInt()));
    if (o.contains("ll")) return num(double(o["ll"].toString().toLongLong()));
    if (o.contains("ull")) return num(double(o["ull"].toString().toULongLong()));
    if (o.contains("d")) return num(o["d"].toString().toDouble());
    if (o.contains("b")) {
        if (v.type != V::Bool || v.b != o["b"].toBool()) return path + ": expected bool " + (o["b"].toBool() ? "true" : "false");
        return "";
    }
    if (o.contains("list")) {
        QJsonArray a = o["list"].toArray();
        if (v.type != V::Array || int(v.arr.size()) != a.size()) return path + ": expected a list of " + std::to_string(a.size());
        for (int i = 0; i < a.size(); i++) {
            std::string d = sameValue(v.arr[size_t(i)], a[i].toObject(), path + "[" + std::to_string(i) + "]");
            if (!d.empty()) return d;
        }
        return "";
    }
    if (o.contains("map") || o.contains("hash")) {
        QJsonArray a = o[o.contains("map") ? "map" : "hash"].toArray();
        if (v.type != V::Object || int(v.obj.size()) != a.size()) return path + ": expected an object with " + std::to_string(a.size()) + " keys";
        for (auto e : a) {
            std::u16string k = u16(strFromJson(e.toArray()[0]));
            const V *m = v.get(k);
            if (!m) return path + ": key " + showU16(k).toStdString() + " missing";
            std::string d = sameValue(*m, e.toArray()[1].toObject(), path + "." + showU16(k).toStdString());
            if (!d.empty()) return d;
        }
        return "";
    }
    if (v.type != V::Null) return path + ": expected null for an invalid QVariant";
    return "";
}

} // namespace verif
