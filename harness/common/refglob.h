// Reference evaluator for category rules (C15), written from the property text:
//   rules separated by ';' or newlines; a rule is  <pattern>[.debug|.info|.warning|.critical] = true|false
//   with optional whitespace around the pattern, '=' and the value; '*' in the pattern matches any
//   (possibly empty) run of characters, everything else is literal; the LAST matching rule decides;
//   no matching rule -> pass; malformed lines are ignored. No regular expressions anywhere here.
#pragma once

#include <QString>
#include <QStringList>
#include <vector>

namespace refglob {

struct Rule
{
    QString pattern;
    int type = -1; // -1 = all types; 0..3 = debug, info, warning, critical
    bool enabled = true;
    QString sourceLine;
};

inline bool isWs(QChar c)
{
    ushort u = c.unicode();
    return u == ' ' || u == '\t' || u == '\n' || u == '\r' || u == 0x0b || u == 0x0c;
}

inline QString trimWs(const QString &s)
{
    int a = 0, b = s.size();
    while (a < b && isWs(s[a])) a++;
    while (b > a && isWs(s[b - 1])) b--;
    return s.mid(a, b - a);
}

inline bool parseLine(const QString &line, Rule *out)
{
    const QString t = trimWs(line);
    const int eq = t.lastIndexOf(QChar('='));
    if (eq < 0)
        return false;
    const QString value = trimWs(t.mid(eq + 1));
    QString name = trimWs(t.left(eq));
    bool enabled;
    if (value == QLatin1String("true")) enabled = true;
    else if (value == QLatin1String("false")) enabled = false;
    else return false;
    if (name.isEmpty())
        return false;
    for (QChar c : name)
        if (isWs(c))
            return false;
    int type = -1;
    static const char *suffixes[] = { ".debug", ".info", ".warning", ".critical" };
    for (int i = 0; i < 4; i++) {
        const QLatin1String sfx(suffixes[i]);
        if (name.endsWith(sfx) && name.size() > sfx.size()) {
            type = i;
            name.chop(sfx.size());
            break;
        }
    }
    out->pattern = name;
    out->type = type;
    out->enabled = enabled;
    out->sourceLine = line;
    return true;
}

inline std::vector<Rule> parseRules(const QString &text)
{
    std::vector<Rule> rules;
    QString cur;
    auto flush = [&] {
        Rule r;
        if (!cur.isEmpty() && parseLine(cur, &r))
            rules.push_back(r);
        cur.clear();
    };
    for (QChar c : text) {
        if (c == QChar(';') || c == QChar('\n'))
            flush();
        else
            cur.append(c);
    }
    flush();
    return rules;
}

// '*' glob on UTF-16 code units, iterative with backtracking to the last star
inline bool globMatch(const QString &pat, const QString &s)
{
    int p = 0, i = 0, star = -1, mark = 0;
    while (i < s.size()) {
        if (p < pat.size() && pat[p] == QChar('*')) {
            star = p++;
            mark = i;
        } else if (p < pat.size() && pat[p] == s[i]) {
            p++;
            i++;
        } else if (star >= 0) {
            p = star + 1;
            i = ++mark;
        } else {
            return false;
        }
    }
    while (p < pat.size() && pat[p] == QChar('*'))
        p++;
    return p == pat.size();
}

// typeIdx: 0 debug, 1 info, 2 warning, 3 critical, 4 fatal
inline bool verdict(const std::vector<Rule> &rules, const QString &category, int typeIdx, int *deciding = nullptr,
                    int *matching = nullptr)
{
    bool enabled = true;
    if (deciding) *deciding = -1;
    if (matching) *matching = 0;
    for (size_t i = 0; i < rules.size(); i++) {
        const Rule &r = rules[i];
        if (r.type != -1 && r.type != typeIdx)
            continue;
        if (!globMatch(r.pattern, category))
            continue;
        enabled = r.enabled;
        if (deciding) *deciding = int(i);
        if (matching) (*matching)++;
    }
    return enabled;
}

} // namespace refglob
