// Reference implementation of the documented pattern mini-language (C12), written from
// docs/api/formatters.md and the "Reference semantics" paragraph of DESIGN.md — not from
// patternformatter.cpp. Works on UTF-16 code units.
//
// evaluate() returns the expected output plus a grade:
//   Exact    the pattern/message pair lies in the core documented domain: output must be equal
//   Bounded  an optional-attribute removal meets something the documentation does not define
//            (fewer literal characters than asked for, a value right after a remove-after, ...):
//            the output must be `full` (nothing removed) minus at most the asked-for number of
//            units, deleted only near the attribute positions (subsequence + budget + untouched
//            prefix/suffix)
//   Skip     the pair uses something this reference does not model (never generated on purpose)
#pragma once

#include <QDateTime>
#include <QMap>
#include <QString>
#include <QStringList>
#include <vector>

namespace refpattern {

struct Spec
{
    QChar fill = QChar(' ');
    char align = 0; // '<' '>' '^' or 0
    int width = 0;
    bool bang = false;
    bool hasFill = false;
};

inline bool isAlign(QChar c) { return c == QChar('<') || c == QChar('>') || c == QChar('^'); }

// [[fill]align]width[!]   —   "N!" alone is allowed; width is a positive decimal number
inline bool parseSpec(const QString &text, Spec *out)
{
    QString u = text;
    Spec s;
    if (u.isEmpty()) return false;
    if (u.endsWith(QChar('!'))) {
        s.bang = true;
        u.chop(1);
        if (u.isEmpty()) return false;
    }
    int pos = 0;
    if (u.size() >= 2 && isAlign(u[1])) {
        s.fill = u[0];
        s.hasFill = true;
        s.align = char(u[1].unicode());
        pos = 2;
    } else if (isAlign(u[0])) {
        s.align = char(u[0].unicode());
        pos = 1;
    }
    const QString w = u.mid(pos);
    if (w.isEmpty() || w.size() > 9) return false;
    int width = 0;
    for (QChar c : w) {
        if (c.unicode() < '0' || c.unicode() > '9') return false;
        width = width * 10 + (c.unicode() - '0');
    }
    if (width <= 0) return false;
    if (!s.align && !s.bang) return false;
    s.width = width;
    *out = s;
    return true;
}

inline QString applySpec(const QString &value, const Spec *spec)
{
    if (!spec) return value;
    QString v = value;
    const bool truncOnly = spec->bang && !spec->hasFill;
    if (spec->bang && v.size() > spec->width)
        v = (spec->align == '>') ? v.right(spec->width) : v.left(spec->width);
    if (truncOnly || v.size() >= spec->width) return v;
    const int p = spec->width - v.size();
    if (spec->align == '<') return v + QString(p, spec->fill);
    if (spec->align == '>') return QString(p, spec->fill) + v;
    return QString(p / 2, spec->fill) + v + QString(p - p / 2, spec->fill); // centre: extra fill on the right
}

struct Token
{
    bool literal = false;
    QString text;   // literal piece (ends at the next "%{")
    QString name;   // placeholder name (without the spec)
    bool hasSpec = false;
    Spec spec;
    int cond = -1;  // index into debug,info,warning,critical,fatal ; -1 = unconditional
};

struct Parsed
{
    std::vector<Token> tokens;
    bool condUnknownType = false; // %{if-xyz}
    bool condNested = false;      // %{if-a} inside an open %{if-b}
    bool specUndefined = false;   // a candidate format spec that only a lenient number parser would accept (white space, sign)
};

inline int typeIndexByName(const QString &n)
{
    static const char *names[] = { "debug", "info", "warning", "critical", "fatal" };
    for (int i = 0; i < 5; i++)
        if (n == QLatin1String(names[i])) return i;
    return -1;
}

inline Parsed tokenize(const QString &pat)
{
    Parsed out;
    QString lit;
    int cond = -1;
    auto flush = [&] {
        if (!lit.isEmpty()) {
            Token t;
            t.literal = true;
            t.text = lit;
            t.cond = cond;
            out.tokens.push_back(t);
            lit.clear();
        }
    };
    int i = 0;
    const int n = pat.size();
    while (i < n) {
        const QChar c = pat[i];
        if (c == QChar('%') && i + 1 < n && pat[i + 1] == QChar('%')) { lit += QChar('%'); i += 2; continue; }
        if (c == QChar('%') && i + 1 < n && pat[i + 1] == QChar('{')) {
            flush(); // a literal piece ends where a placeholder starts
            const int close = pat.indexOf(QChar('}'), i + 2);
            if (close < 0) { lit += QChar('%'); i += 1; continue; } // unterminated: the '%' is literal
            QString body = pat.mid(i + 2, close - i - 2);
            Token t;
            const int colon = body.lastIndexOf(QChar(':'));
            if (colon >= 0 && colon < body.size() - 1) {
                Spec s;
                if (parseSpec(body.mid(colon + 1), &s)) {
                    t.hasSpec = true;
                    t.spec = s;
                    body = body.left(colon);
                } else {
                    // "10 !", "+5!", "<\n7": a width written with white space or a sign is not in the documented grammar
                    // ([fill][align]width[!], width a positive decimal); whether a number parser tolerates it is not defined
                    QString lax;
                    const QString cand = body.mid(colon + 1);
                    for (int k = 0; k < cand.size(); k++) {
                        const QChar ch = cand[k];
                        const bool fillPos = k == 0 && cand.size() >= 2 && isAlign(cand[1]); // a fill character may be anything
                        if (!fillPos && (ch.isSpace() || ch == QChar('+'))) continue;
                        lax += ch;
                    }
                    Spec s2;
                    if (lax != cand && parseSpec(lax, &s2)) out.specUndefined = true;
                }
            }
            i = close + 1;
            if (body.startsWith(QLatin1String("if-"))) {
                int ti = typeIndexByName(body.mid(3));
                if (ti < 0) { out.condUnknownType = true; ti = 0; }
                if (cond >= 0) out.condNested = true;
                cond = ti;
                continue;
            }
            if (body == QLatin1String("endif")) { cond = -1; continue; }
            t.name = body;
            t.cond = cond;
            out.tokens.push_back(t);
            continue;
        }
        lit += c;
        i++;
    }
    flush();
    return out;
}

struct Message
{
    int typeIdx = 0;
    QString text, category, file, function;
    int line = 0;
    quint64 threadId = 0;
    QDateTime time;
    QMap<QString, QString> attrs; // rendered values (string as is, int decimal, bool true/false)
    QString funcCleaned;          // what %{func} yields for this function (obtained separately)
};

enum Grade { Exact, Bounded, Skip };

struct Result
{
    Grade grade = Exact;
    // candidates for the exact output (more than one only because %{time} may or may not carry milliseconds)
    QStringList exact;
    // Bounded: output with nothing removed, the total removal budget, and the untouched prefix/suffix lengths
    QStringList full;
    int budget = 0;
    int keepPrefix = 0, keepSuffixFrom = 0; // in `full` coordinates
    // per code unit of full[0]: may this unit be removed? Literal units may (inside the window); units of a VALUE may
    // only when a later omitted attribute with remove-before > 0 can reach them ("chop N chars before" acts on the output
    // so far, whatever it is) - the remove-after count only ever applies to literal text (property anchor: "tell the
    // next literal to drop M chars"), so no value unit after an omitted attribute may disappear.
    QVector<char> fullMask;
    bool opaque = false;      // contains one %{time process}: exact = prefix + <number> + suffix
    QString opaquePrefix, opaqueSuffix;
    bool tokenless = false;   // no token at all: message or empty are both accepted
    QString note;
};

inline QString pad2(int v, int w) { return QString("%1").arg(v, w, 10, QChar('0')); }

// the documented Qt format specifiers yyyy MM dd hh mm ss zzz ; everything else literal
inline bool formatTime(const QDateTime &t, const QString &fmt, QString *out)
{
    QString o;
    int i = 0;
    while (i < fmt.size()) {
        auto starts = [&](const char *s) { return fmt.mid(i).startsWith(QLatin1String(s)); };
        if (starts("yyyy")) { o += pad2(t.date().year(), 4); i += 4; }
        else if (starts("MM")) { o += pad2(t.date().month(), 2); i += 2; }
        else if (starts("dd")) { o += pad2(t.date().day(), 2); i += 2; }
        else if (starts("hh")) { o += pad2(t.time().hour(), 2); i += 2; }
        else if (starts("mm")) { o += pad2(t.time().minute(), 2); i += 2; }
        else if (starts("ss")) { o += pad2(t.time().second(), 2); i += 2; }
        else if (starts("zzz")) { o += pad2(t.time().msec(), 3); i += 3; }
        else {
            const ushort u = fmt[i].unicode();
            if ((u >= 'a' && u <= 'z') || (u >= 'A' && u <= 'Z' && u != 'T') || u == '\'') return false; // other format letters: not modelled
            o += fmt[i];
            i++;
        }
    }
    *out = o;
    return true;
}

inline QString shortFile(const QString &file, const QString &base)
{
    if (base.isEmpty()) {
        int k = file.lastIndexOf(QChar('/'));
        if (k < 0) k = file.lastIndexOf(QChar('\\'));
        return k >= 0 ? file.mid(k + 1) : file;
    }
    if (file.startsWith(base)) {
        QString r = file.mid(base.size());
        if (r.startsWith(QChar('/')) || r.startsWith(QChar('\\'))) r = r.mid(1);
        return r;
    }
    return file;
}

inline QString trimSpaces(const QString &s)
{
    int a = 0, b = s.size();
    while (a < b && s[a].isSpace()) a++;
    while (b > a && s[b - 1].isSpace()) b--;
    return s.mid(a, b - a);
}

inline bool allDigits(const QString &s)
{
    for (QChar c : s)
        if (c.unicode() < '0' || c.unicode() > '9') return false;
    return true;
}

inline Result evaluate(const QString &pattern, const Message &m)
{
    static const char *typeNames[] = { "debug", "info", "warning", "critical", "fatal" };
    Result r;
    const Parsed p = tokenize(pattern);
    if (p.tokens.empty()) {
        r.tokenless = true;
        r.exact << m.text << QString("");
        return r;
    }
    // tokens active for this message type
    std::vector<const Token *> act;
    for (auto &t : p.tokens)
        if (t.cond < 0 || t.cond == m.typeIdx) act.push_back(&t);
    if (p.specUndefined) { r.grade = Skip; r.note = "width with white space or sign: not defined by the documentation"; return r; }
    if (p.condNested || p.condUnknownType) { r.grade = Skip; r.note = "nested or unknown conditional: not defined by the documentation"; return r; }

    struct Piece
    {
        QStringList values;     // candidate renderings (1 normally)
        bool literal = false;
        bool missingOptional = false;
        int removeBefore = 0, removeAfter = 0;
        bool opaque = false;
    };
    std::vector<Piece> pieces;
    for (const Token *t : act) {
        Piece pc;
        if (t->literal) { pc.literal = true; pc.values << t->text; pieces.push_back(pc); continue; }
        const Spec *sp = t->hasSpec ? &t->spec : nullptr;
        const QString &name = t->name;
        QStringList vals;
        if (name == QLatin1String("message")) vals << m.text;
        else if (name == QLatin1String("type")) vals << QLatin1String(typeNames[m.typeIdx]);
        else if (name == QLatin1String("category")) vals << m.category;
        else if (name == QLatin1String("file")) vals << m.file;
        else if (name == QLatin1String("line")) vals << QString::number(m.line);
        else if (name == QLatin1String("function")) vals << m.function;
        else if (name == QLatin1String("func")) vals << m.funcCleaned;
        else if (name == QLatin1String("threadid")) vals << QString::number(m.threadId);
        else if (name == QLatin1String("qthreadptr")) vals << (QStringLiteral("0x") + QString::number(m.threadId, 16));
        else if (name == QLatin1String("shortfile")) vals << shortFile(m.file, QString());
        else if (name.startsWith(QLatin1String("shortfile "))) vals << shortFile(m.file, trimSpaces(name.mid(10)));
        else if (name == QLatin1String("time") || name.startsWith(QLatin1String("time "))) {
            const QString fmt = name == QLatin1String("time") ? QString() : trimSpaces(name.mid(5));
            if (fmt == QLatin1String("process") || fmt == QLatin1String("boot")) {
                if (sp) { r.grade = Skip; r.note = "spec on an opaque time value"; return r; }
                pc.opaque = true;
                vals << QString();
            } else if (fmt.isEmpty()) {
                // ISO 8601 local time to the second; the documentation shows milliseconds, both accepted
                QString base;
                formatTime(m.time, QStringLiteral("yyyy-MM-ddThh:mm:ss"), &base);
                vals << base << (base + "." + pad2(m.time.time().msec(), 3));
            } else {
                QString v;
                if (!formatTime(m.time, fmt, &v)) { r.grade = Skip; r.note = "time format outside the documented specifiers"; return r; }
                vals << v;
            }
        } else {
            // custom attribute: name | name? | name?N | name?N,M | name?,M
            QString an = name;
            bool optional = false;
            int N = 0, M = 0;
            const int q = name.indexOf(QChar('?'));
            if (q >= 0) {
                optional = true;
                an = name.left(q);
                const QString suf = name.mid(q + 1);
                const int comma = suf.indexOf(QChar(','));
                const QString a = comma < 0 ? suf : suf.left(comma), b = comma < 0 ? QString() : suf.mid(comma + 1);
                if (!allDigits(a) || !allDigits(b) || a.size() > 6 || b.size() > 6) { r.grade = Skip; r.note = "malformed ?N,M"; return r; }
                N = a.toInt();
                M = b.toInt();
            }
            if (m.attrs.contains(an)) vals << m.attrs.value(an);
            else if (!optional) vals << (QStringLiteral("%{") + an + QStringLiteral("}"));
            else { pc.missingOptional = true; pc.removeBefore = N; pc.removeAfter = M; pc.values << QString(); pieces.push_back(pc); continue; }
        }
        for (auto &v : vals) pc.values << (pc.opaque ? v : applySpec(v, sp));
        pieces.push_back(pc);
    }

    // ---- classify: core documented domain or not ----
    int opaqueCount = 0;
    for (size_t i = 0; i < pieces.size(); i++) {
        const Piece &pc = pieces[i];
        if (pc.opaque) opaqueCount++;
        if (!pc.missingOptional) continue;
        r.budget += pc.removeBefore + pc.removeAfter;
        if (pc.removeBefore > 0) {
            bool ok = i > 0 && pieces[i - 1].literal;
            if (ok) {
                int need = pc.removeBefore;
                // the same literal may also serve a remove-after of the attribute before it
                if (i >= 2 && pieces[i - 2].missingOptional) need += pieces[i - 2].removeAfter;
                ok = pieces[i - 1].values[0].size() >= need;
            }
            if (!ok && r.grade == Exact) { r.grade = Bounded; r.note = "remove-before meets fewer literal characters than asked for"; }
        }
        if (pc.removeAfter > 0 && i + 1 < pieces.size()) {
            bool ok = pieces[i + 1].literal && pieces[i + 1].values[0].size() >= pc.removeAfter;
            if (!ok && r.grade == Exact) { r.grade = Bounded; r.note = "remove-after meets a value or fewer literal characters than asked for"; }
        }
    }
    if (opaqueCount > 1 || (opaqueCount == 1 && r.grade != Exact)) { r.grade = Skip; r.note = "more than one opaque value"; return r; }

    // ---- compose ----
    auto compose = [&](bool remove, bool upToOpaque, bool afterOpaque) {
        QStringList outs;
        outs << QString();
        int skip = 0;
        bool seenOpaque = false;
        for (size_t i = 0; i < pieces.size(); i++) {
            const Piece &pc = pieces[i];
            if (pc.opaque) { seenOpaque = true; if (upToOpaque) break; if (afterOpaque) { outs = QStringList() << QString(); } continue; }
            if (afterOpaque && !seenOpaque) continue;
            if (pc.missingOptional) {
                if (remove) {
                    for (auto &o : outs) o.chop(qMin(pc.removeBefore, o.size()));
                    skip = pc.removeAfter;
                }
                continue;
            }
            QStringList next;
            for (auto &o : outs)
                for (auto &v : pc.values) {
                    QString vv = v;
                    if (pc.literal && skip > 0) vv = vv.mid(qMin(skip, vv.size()));
                    next << (o + vv);
                }
            skip = 0;
            outs = next;
            if (outs.size() > 16) outs = outs.mid(0, 16);
        }
        return outs;
    };
    if (opaqueCount == 1) {
        r.opaque = true;
        r.opaquePrefix = compose(true, true, false).value(0);
        r.opaqueSuffix = compose(true, false, true).value(0);
        // a %{time} with two candidates next to an opaque value is not worth modelling
        for (auto &pc : pieces) if (pc.values.size() > 1) { r.grade = Skip; r.note = "time candidates next to an opaque value"; return r; }
        return r;
    }
    r.exact = compose(true, false, false);
    if (r.grade == Bounded) {
        r.full = compose(false, false, false);
        // untouched prefix / suffix of `full`
        int off = 0, firstPos = -1, lastPos = -1, sumN = 0, sumM = 0;
        for (auto &pc : pieces) {
            if (pc.missingOptional) { if (firstPos < 0) firstPos = off; lastPos = off; sumN += pc.removeBefore; sumM += pc.removeAfter; continue; }
            off += pc.values[0].size(); // candidates of one piece have different lengths only for %{time}; handled by the caller per candidate
        }
        {
            // removable mask over full[0]
            int o2 = 0;
            std::vector<std::pair<int, int>> chopRanges; // [from, to) in full coordinates
            for (auto &pc : pieces) {
                if (pc.missingOptional) { if (pc.removeBefore > 0) chopRanges.push_back({ qMax(0, o2 - r.budget), o2 }); continue; }
                o2 += pc.values[0].size();
            }
            o2 = 0;
            for (auto &pc : pieces) {
                if (pc.missingOptional) continue;
                for (int k = 0; k < pc.values[0].size(); k++, o2++) {
                    bool removable = pc.literal;
                    if (!removable)
                        for (auto &cr : chopRanges) if (o2 >= cr.first && o2 < cr.second) removable = true;
                    r.fullMask.append(removable ? 1 : 0);
                }
            }
        }
        r.keepPrefix = firstPos < 0 ? off : qMax(0, firstPos - sumN);
        r.keepSuffixFrom = lastPos < 0 ? 0 : lastPos + sumM;
        for (auto &pc : pieces) if (pc.values.size() > 1 && !pc.missingOptional) { r.grade = Skip; r.note = "time candidates in a bounded case"; return r; }
    }
    return r;
}

// is `a` obtainable from `full` by deleting at most `budget` units, none of them before keepPrefix or at/after keepSuffixFrom?
inline bool boundedMatch(const QString &a, const QString &full, int budget, int keepPrefix, int keepSuffixFrom)
{
    if (a.size() > full.size() || full.size() - a.size() > budget) return false;
    keepPrefix = qMin(keepPrefix, full.size());
    keepSuffixFrom = qMin(qMax(keepSuffixFrom, keepPrefix), full.size());
    const int tail = full.size() - keepSuffixFrom;
    if (a.size() < keepPrefix + tail) return false;
    if (a.left(keepPrefix) != full.left(keepPrefix)) return false;
    if (tail && a.right(tail) != full.right(tail)) return false;
    // middle: subsequence test
    const QString am = a.mid(keepPrefix, a.size() - keepPrefix - tail), fm = full.mid(keepPrefix, full.size() - keepPrefix - tail);
    int j = 0;
    for (int i = 0; i < fm.size() && j < am.size(); i++)
        if (fm[i] == am[j]) j++;
    return j == am.size();
}

// as boundedMatch, and additionally only units with mask != 0 may be deleted (mask parallels `full`)
inline bool boundedMatchMasked(const QString &a, const QString &full, const QVector<char> &mask, int budget, int keepPrefix, int keepSuffixFrom)
{
    if (mask.size() != full.size()) return boundedMatch(a, full, budget, keepPrefix, keepSuffixFrom);
    if (!boundedMatch(a, full, budget, keepPrefix, keepSuffixFrom)) return false;
    if (qint64(full.size()) * a.size() > 4000000) return true; // huge padded outputs: the quadratic refinement is skipped (the unmasked obligations above were checked)
    keepPrefix = qMin(keepPrefix, full.size());
    keepSuffixFrom = qMin(qMax(keepSuffixFrom, keepPrefix), full.size());
    const int n = full.size(), m = a.size();
    const int INF = 1 << 29;
    // dp[j] = minimal deletions so that full[0..i) yields a[0..j)
    std::vector<int> dp(m + 1, INF), nx(m + 1, INF);
    dp[0] = 0;
    for (int i = 0; i < n; i++) {
        std::fill(nx.begin(), nx.end(), INF);
        const bool removable = mask[i] && i >= keepPrefix && i < keepSuffixFrom;
        for (int j = 0; j <= m; j++) {
            if (dp[j] >= INF) continue;
            if (j < m && full[i] == a[j]) nx[j + 1] = qMin(nx[j + 1], dp[j]);
            if (removable && dp[j] + 1 <= budget) nx[j] = qMin(nx[j], dp[j] + 1);
        }
        dp.swap(nx);
    }
    return dp[m] <= budget;
}

} // namespace refpattern
