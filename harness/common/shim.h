// Control interface of the libc interposition shim (shim.cpp).
#pragma once

// virtual wall clock (milliseconds since the epoch); affects gettimeofday, clock_gettime(REALTIME), time
void verif_clock_enable(bool on);
void verif_clock_set(long long ms);
long long verif_clock_get();

// counting / crash / failure injection on mutating file-system calls.
//   crashAt k : the process _exit(77)s right before its k-th counted call (k >= 1; -1 = never)
//   failAt  k : the k-th counted call fails with failErrno without being executed (-1 = never)
//   traceFd   : when >= 0 every counted call is logged there as "<k> <call> <path>"
void verif_shim_arm(int crashAt, int failAt, int failErrno, int traceFd);
int verif_shim_disarm(); // returns the number of counted calls since arm

// sticky failure mode ("the directory is not writable"): while armed, EVERY rename/renameat2/link/linkat/unlink and every
// open that would CREATE a file that does not exist yet fails with err (0 = off). Calls are still counted and traced.
void verif_shim_sticky(int err);

// observation hook: called right before an unlink() is executed (armed or not), with the path about to disappear
void verif_shim_on_unlink(void (*hook)(const char *path));
