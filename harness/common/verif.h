// Shared plumbing for the rapidcheck harnesses: statistics, case files, replay, main().
//
// Protocol with the driver (/verif/check):
//   env VERIF_PROP      property id the harness is run for (a harness may serve several)
//   env VERIF_STATS     path of the JSON statistics file the harness writes at exit
//   env VERIF_FAILCASE  path where every failing case is written (the last one written is
//                       the one rapidcheck shrank to)
//   env VERIF_REPLAY    path of a case file: run exactly this case, no generator, no RNG
//   env VERIF_EXCLUDE   comma separated names of known-finding classes the generator must
//                       not produce (counted in stats as "excluded")
//   RC_PARAMS           rapidcheck configuration (seed, max_success, max_size)
// Exit status: 0 = property held on everything generated, 1 = falsified (case file written),
// anything else = harness problem.
#pragma once

#include <rapidcheck.h>

#include <QByteArray>
#include <QFile>
#include <QJsonArray>
#include <QJsonDocument>
#include <QJsonObject>
#include <QString>

#include <chrono>
#include <cstdio>
#include <cstdlib>
#include <thread>
#include <unistd.h>
#include <functional>
#include <map>
#include <set>
#include <string>
#include <unordered_set>
#include <vector>

namespace verif {

inline const char *envOr(const char *name, const char *dflt)
{
    const char *v = getenv(name);
    return (v && *v) ? v : dflt;
}

inline std::string prop() { return envOr("VERIF_PROP", ""); }

inline bool excluded(const char *name)
{
    std::string e = std::string(",") + envOr("VERIF_EXCLUDE", "") + ",";
    return e.find(std::string(",") + name + ",") != std::string::npos;
}

// ---- uniform / sized integer choices ------------------------------------------------------
// rc::gen::inRange scales its range with the current size; for *choices* (which kind of
// operation, which alphabet class) we want a uniform pick independent of size.
inline int pick(int lo, int hi) // inclusive, uniform
{
    return *rc::gen::resize(rc::kNominalSize, rc::gen::inRange<int>(lo, hi + 1));
}
inline int sized(int lo, int hi) // inclusive, grows with size
{
    return *rc::gen::inRange<int>(lo, hi + 1);
}
inline bool chance(int percent) { return pick(0, 99) < percent; }
inline long long pick64(long long lo, long long hi)
{
    return *rc::gen::resize(rc::kNominalSize, rc::gen::inRange<long long>(lo, hi + 1));
}

// ---- FNV-1a fingerprint -------------------------------------------------------------------
inline uint64_t fnv(const QByteArray &b)
{
    uint64_t h = 1469598103934665603ULL;
    for (unsigned char c : b) {
        h ^= c;
        h *= 1099511628211ULL;
    }
    return h;
}

// ---- statistics ---------------------------------------------------------------------------
struct Stats
{
    long evaluations = 0;
    std::unordered_set<uint64_t> distinctAll;
    std::unordered_set<uint64_t> nontrivial;
    std::map<std::string, long> classes;
    std::map<std::string, long> counters;
    std::vector<QJsonValue> samples;
    std::vector<QJsonValue> trivialSamples;
    std::string failMessage;
    long failures = 0;
    long long firstFailureMs = 0; // steady clock, set when the first failing case of the run is recorded
};

inline Stats &stats()
{
    static Stats s;
    return s;
}

inline void cls(const std::string &name, bool cond = true)
{
    if (cond)
        stats().classes[name]++;
    else
        stats().classes.emplace(name, 0);
}
inline void count(const std::string &name, long n = 1) { stats().counters[name] += n; }

// one generated case was evaluated; `canon` is its canonical JSON form
inline void noteCase(const QJsonValue &canon, bool nontrivial)
{
    auto &s = stats();
    s.evaluations++;
    QByteArray bytes = canon.isObject() ? QJsonDocument(canon.toObject()).toJson(QJsonDocument::Compact)
                                        : QJsonDocument(canon.toArray()).toJson(QJsonDocument::Compact);
    uint64_t h = fnv(bytes);
    s.distinctAll.insert(h);
    if (nontrivial) {
        bool fresh = s.nontrivial.insert(h).second;
        if (fresh && s.samples.size() < 4)
            s.samples.push_back(canon);
    } else if (s.trivialSamples.size() < 1) {
        s.trivialSamples.push_back(canon);
    }
}

inline void writeFile(const std::string &path, const QByteArray &data)
{
    if (path.empty())
        return;
    QFile f(QString::fromStdString(path));
    if (f.open(QIODevice::WriteOnly | QIODevice::Truncate)) {
        f.write(data);
        f.close();
    }
}

// records a failing case (called from inside the property body before RC_FAIL)
inline void failCase(const QJsonObject &caseObj, const std::string &why)
{
    auto &s = stats();
    s.failures++;
    if (s.firstFailureMs == 0)
        s.firstFailureMs = std::chrono::duration_cast<std::chrono::milliseconds>(std::chrono::steady_clock::now().time_since_epoch()).count();
    s.failMessage = why;
    QJsonObject o;
    o["property"] = QString::fromStdString(prop());
    o["why"] = QString::fromStdString(why);
    o["case"] = caseObj;
    writeFile(envOr("VERIF_FAILCASE", ""), QJsonDocument(o).toJson(QJsonDocument::Indented));
    // the case as generated, before shrinking: for schedule-dependent properties a shrunk case may fail only rarely, the driver
    // falls back to this one when the shrunk case does not reproduce
    if (s.failures == 1 && !std::string(envOr("VERIF_FAILCASE", "")).empty())
        writeFile((std::string(envOr("VERIF_FAILCASE", "")) + ".first").c_str(), QJsonDocument(o).toJson(QJsonDocument::Indented));
}

inline void dumpStats(bool ok)
{
    auto &s = stats();
    QJsonObject o;
    o["ok"] = ok;
    o["evaluations"] = double(s.evaluations);
    o["distinct_all"] = double(s.distinctAll.size());
    o["distinct_nontrivial"] = double(s.nontrivial.size());
    o["failures"] = double(s.failures);
    o["fail_message"] = QString::fromStdString(s.failMessage);
    QJsonObject c;
    for (auto &kv : s.classes)
        c[QString::fromStdString(kv.first)] = double(kv.second);
    o["classes"] = c;
    QJsonObject k;
    for (auto &kv : s.counters)
        k[QString::fromStdString(kv.first)] = double(kv.second);
    o["counters"] = k;
    QJsonArray sm;
    for (auto &v : s.samples)
        sm.append(v);
    if (sm.isEmpty())
        for (auto &v : s.trivialSamples)
            sm.append(v);
    o["samples"] = sm;
    // fingerprints of the non-trivial cases, so the driver can count distinct cases over shards
    QJsonArray hs;
    for (auto h : s.nontrivial)
        hs.append(QString::number(h, 16));
    o["nontrivial_hashes"] = hs;
    writeFile(envOr("VERIF_STATS", ""), QJsonDocument(o).toJson(QJsonDocument::Compact));
}

// ---- sanitizer deaths: dump the case that was running ---------------------------------------
extern "C" void __sanitizer_set_death_callback(void (*callback)(void));
inline QJsonObject &currentCase()
{
    static QJsonObject c;
    return c;
}
inline void onSanitizerDeath()
{
    static bool once = false;
    if (once)
        return;
    once = true;
    QJsonObject o;
    o["property"] = QString::fromUtf8(envOr("VERIF_PROP", ""));
    o["why"] = QStringLiteral("sanitizer report or abort while running this case");
    o["case"] = currentCase();
    writeFile(envOr("VERIF_FAILCASE", ""), QJsonDocument(o).toJson(QJsonDocument::Indented));
    dumpStats(false);
}

inline QJsonObject readCaseFile(const char *path)
{
    QFile f(QString::fromUtf8(path));
    if (!f.open(QIODevice::ReadOnly)) {
        fprintf(stderr, "cannot read replay file %s\n", path);
        exit(3);
    }
    auto doc = QJsonDocument::fromJson(f.readAll());
    auto o = doc.object();
    if (o.contains("case"))
        return o["case"].toObject();
    return o;
}

// generate: draws a case with rapidcheck generators and returns it as JSON (plain data)
// run:      executes a case; returns "" when the property held, else the reason. Must be a
//           pure function of the case.
// Time budget: the driver passes VERIF_DEADLINE_S (seconds of wall time this process may use). When it is used up the
// harness writes the statistics of what it explored so far and exits 0 ("held on everything explored"); a budget that
// runs out is never a violation and never a harness error.
inline long rssMb()
{
    long pages = 0, dummy = 0;
    if (FILE *f = fopen("/proc/self/statm", "r")) {
        if (fscanf(f, "%ld %ld", &dummy, &pages) != 2) pages = 0;
        fclose(f);
    }
    return pages * (sysconf(_SC_PAGESIZE) / 1024) / 1024;
}

inline void startBudgetWatchdog()
{
    const long budget = atol(envOr("VERIF_DEADLINE_S", "0"));
    const long maxRss = atol(envOr("VERIF_MAX_RSS_MB", "3500")); // ASan's stack depot grows with every new allocation stack
    std::thread([budget, maxRss] {
        const auto t0 = std::chrono::steady_clock::now();
        for (;;) {
            std::this_thread::sleep_for(std::chrono::seconds(2));
            const long el = long(std::chrono::duration_cast<std::chrono::seconds>(std::chrono::steady_clock::now() - t0).count());
            const bool timeUp = budget > 0 && el >= budget;
            const bool memUp = maxRss > 0 && rssMb() > maxRss;
            // a failing case has been recorded: rapidcheck is shrinking it. The smallest failing case so far is on disk; shrinking
            // gets 150 s (or whatever is left of the budget), then the run ends as FALSIFIED - never as "held".
            const long long nowMs = std::chrono::duration_cast<std::chrono::milliseconds>(std::chrono::steady_clock::now().time_since_epoch()).count();
            const long shrinkLimit = atol(envOr("VERIF_SHRINK_S", "150"));
            if (stats().failures > 0 && (timeUp || memUp || nowMs - stats().firstFailureMs > shrinkLimit * 1000L)) {
                count("shrinking_cut_short");
                dumpStats(false);
                fprintf(stderr, "Falsifiable (shrinking cut short after %ld candidate cases): %s\n", stats().failures, stats().failMessage.c_str());
                _exit(1);
            }
            if (!timeUp && !memUp) continue;
            count(timeUp ? "time_budget_exhausted" : "memory_budget_exhausted");
            dumpStats(true);
            fprintf(stderr, "%s budget used up after %ld cases (%ld s, %ld MB): stopping (inconclusive beyond that, not a failure)\n",
                    timeUp ? "time" : "memory", stats().evaluations, el, rssMb());
            _exit(0);
        }
    }).detach();
}

inline int harnessMain(const char *name, const std::function<QJsonObject()> &generate,
                       const std::function<std::string(const QJsonObject &)> &run)
{
    __sanitizer_set_death_callback(onSanitizerDeath);
    if (!getenv("VERIF_REPLAY"))
        startBudgetWatchdog();
    if (const char *rp = getenv("VERIF_REPLAY")) {
        QJsonObject c = readCaseFile(rp);
        currentCase() = c;
        std::string why = run(c);
        if (!why.empty()) {
            failCase(c, why);
            printf("REPLAY-FAIL %s: %s\n", name, why.c_str());
            dumpStats(false);
            return 1;
        }
        printf("REPLAY-OK %s\n", name);
        dumpStats(true);
        return 0;
    }
    bool ok = rc::check(name, [&] {
        QJsonObject c = generate();
        currentCase() = c;
        std::string why = run(c);
        if (!why.empty()) {
            failCase(c, why);
            RC_FAIL(why);
        }
    });
    dumpStats(ok);
    return ok ? 0 : 1;
}

// ---- JSON helpers for cases ------------------------------------------------------------------
// QStrings in case files are stored as arrays of UTF-16 code units when they contain anything
// a JSON text editor might mangle; plain ASCII is stored as a string.
inline QJsonValue strToJson(const QString &s)
{
    if (s.isNull())
        return QJsonValue(QJsonValue::Null);
    bool plain = true;
    for (QChar c : s)
        if (c.unicode() < 0x20 || c.unicode() > 0x7e)
            plain = false;
    if (plain)
        return QJsonValue(s);
    QJsonArray a;
    for (QChar c : s)
        a.append(int(c.unicode()));
    return a;
}
inline QString strFromJson(const QJsonValue &v)
{
    if (v.isNull() || v.isUndefined())
        return QString();
    if (v.isString()) {
        QString s = v.toString();
        return s.isNull() ? QString("") : s;
    }
    QString s("");
    for (auto x : v.toArray())
        s.append(QChar(ushort(x.toInt())));
    return s;
}

} // namespace verif
