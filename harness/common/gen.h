// rapidcheck-driven generators for strings (well-formed UTF-16 by construction) and friends.
#pragma once

#include "verif.h"

#include <QString>
#include <QVariant>

namespace verif {

enum StrClass {
    SC_ASCII = 0,   // printable ASCII
    SC_BMP,         // Latin-1 supplement, Greek, Cyrillic, CJK
    SC_ASTRAL,      // surrogate pairs
    SC_ZEROWIDTH,   // U+200B U+200C U+200D U+FEFF U+2060, combining marks
    SC_CONTROL,     // NUL TAB CR LF U+001F U+007F U+0085 U+2028 U+2029
    SC_PATSYNTAX,   // % { } : ? , < > ^ !
    SC_JSONSYNTAX,  // " \ /
    SC_COUNT
};

inline const char *strClassName(int c)
{
    static const char *n[] = { "ascii", "bmp", "astral", "zerowidth", "control", "patsyntax", "jsonsyntax" };
    return n[c];
}

// appends one "character" (1 or 2 code units) of class c
inline void appendChar(QString &s, int c, bool allowZwsp = true, bool allowNul = true)
{
    switch (c) {
    case SC_ASCII:
        s.append(QChar(ushort(pick(0x20, 0x7e))));
        break;
    case SC_BMP: {
        static const ushort pool[] = { 0x00e9, 0x00df, 0x00a0, 0x03a9, 0x0416, 0x4e2d, 0x65e5, 0x3042,
                                       0xac00, 0xfb01, 0xfffd, 0xffef, 0x0130, 0x1e9e, 0x00ff, 0x0100 };
        s.append(QChar(pool[pick(0, 15)]));
        break;
    }
    case SC_ASTRAL: {
        static const uint pool[] = { 0x1f600, 0x10000, 0x10ffff, 0x1f468, 0x20000, 0x1d11e, 0x1f1e9 };
        uint cp = pool[pick(0, 6)];
        s.append(QChar(QChar::highSurrogate(cp)));
        s.append(QChar(QChar::lowSurrogate(cp)));
        break;
    }
    case SC_ZEROWIDTH: {
        static const ushort pool[] = { 0x200b, 0x200c, 0x200d, 0xfeff, 0x2060, 0x0301, 0x0308, 0x200b };
        ushort u = pool[pick(0, 7)];
        if (u == 0x200b && !allowZwsp)
            u = 0x200c;
        s.append(QChar(u));
        break;
    }
    case SC_CONTROL: {
        static const ushort pool[] = { 0x0000, 0x0009, 0x000d, 0x000a, 0x001f, 0x007f, 0x0085, 0x2028,
                                       0x2029, 0x001b, 0x000a, 0x0008 };
        ushort u = pool[pick(0, 11)];
        if (u == 0 && !allowNul)
            u = 1;
        s.append(QChar(u));
        break;
    }
    case SC_PATSYNTAX: {
        static const char pool[] = "%{}:?,<>^!%{}";
        s.append(QChar(ushort(pool[pick(0, 12)])));
        break;
    }
    case SC_JSONSYNTAX: {
        static const char pool[] = "\"\\/\"\\";
        s.append(QChar(ushort(pool[pick(0, 4)])));
        break;
    }
    }
}

struct StrOpts
{
    int maxLen = 12;          // in "characters"
    unsigned classes = (1u << SC_COUNT) - 1;
    bool allowNull = false;   // null QString
    bool allowZwsp = true;
    bool allowNul = true;
    int mixPercent = 50;      // chance that a string mixes classes instead of using one
};

// returns the string and ors the used classes into *used
inline QString genString(const StrOpts &o, unsigned *used = nullptr)
{
    if (o.allowNull && chance(4))
        return QString();
    QString s("");
    int n = chance(10) ? 0 : sized(0, o.maxLen);
    std::vector<int> avail;
    for (int c = 0; c < SC_COUNT; c++)
        if (o.classes & (1u << c))
            avail.push_back(c);
    bool mix = chance(o.mixPercent);
    int one = avail[pick(0, int(avail.size()) - 1)];
    for (int i = 0; i < n; i++) {
        int c = one;
        if (mix)
            c = chance(55) ? SC_ASCII : avail[pick(0, int(avail.size()) - 1)];
        if (!(o.classes & (1u << c)))
            c = one;
        appendChar(s, c, o.allowZwsp, o.allowNul);
        if (used)
            *used |= 1u << c;
    }
    return s;
}

// printable ASCII, optionally restricted to identifier-like characters
inline QByteArray genAscii(int maxLen, bool identLike = false)
{
    QByteArray b("");
    int n = sized(0, maxLen);
    static const char ident[] = "abcdefghijklmnopqrstuvwxyzABCDEFGHIJKLMNOPQRSTUVWXYZ0123456789_.:/-";
    for (int i = 0; i < n; i++) {
        if (identLike)
            b.append(ident[pick(0, int(sizeof(ident)) - 2)]);
        else
            b.append(char(pick(0x20, 0x7e)));
    }
    return b;
}

static const QtMsgType kTypes[5] = { QtDebugMsg, QtInfoMsg, QtWarningMsg, QtCriticalMsg, QtFatalMsg };
inline const char *typeName(QtMsgType t)
{
    switch (t) {
    case QtDebugMsg: return "debug";
    case QtInfoMsg: return "info";
    case QtWarningMsg: return "warning";
    case QtCriticalMsg: return "critical";
    case QtFatalMsg: return "fatal";
    }
    return "?";
}
inline int typeIndex(QtMsgType t)
{
    for (int i = 0; i < 5; i++)
        if (kTypes[i] == t)
            return i;
    return 0;
}

} // namespace verif
