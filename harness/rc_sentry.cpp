// C18 — Sentry events are valid Store-API payloads that carry the message faithfully.
//
// Case:   { type, text, cat, file, func, line, attrs:[[name,value]...], sdkName, sdkVersion }
// Oracle: minijson parse + field obligations from the property statement. The process runs in a
//         non-UTC time zone (TZ set by the driver) so that "UTC" is observable.
#include "common/jsonval.h"

#include "qtlogger/formatters/sentryformatter.h"

#include <unordered_set>

using namespace QtLogger;
using namespace verif;

namespace {

struct Route { const char *attr; const char *path[3]; };
const Route kRoutes[] = {
    { "appname", { "tags", "app_name", nullptr } },
    { "appversion", { "tags", "app_version", nullptr } },
    { "os_name", { "contexts", "os", "name" } },
    { "os_version", { "contexts", "os", "version" } },
    { "kernel_version", { "contexts", "os", "kernel_version" } },
    { "build_abi", { "contexts", "os", "build" } },
    { "cpu_arch", { "contexts", "device", "arch" } },
    { "host_name", { "contexts", "device", "name" } },
};
const Route *routeOf(const QString &name)
{
    for (auto &r : kRoutes) if (name == QLatin1String(r.attr)) return &r;
    return nullptr;
}

const char *sentryLevel(QtMsgType t)
{
    switch (t) {
    case QtDebugMsg: return "debug";
    case QtInfoMsg: return "info";
    case QtWarningMsg: return "warning";
    case QtCriticalMsg: return "error";
    case QtFatalMsg: return "fatal";
    }
    return "?";
}

QJsonObject generate()
{
    QJsonObject c;
    unsigned used = 0;
    bool nested = false;
    StrOpts so;
    so.allowNull = true;
    so.maxLen = 24;
    c["type"] = pick(0, 4);
    QString text;
    bool boundary = false;
    if (chance(30)) { // around the 100-unit boundary, an astral character may straddle it
        int len = pick(95, 105);
        StrOpts fo; fo.maxLen = 1; fo.classes = (1u << SC_ASCII) | (1u << SC_BMP);
        while (text.size() < len) {
            if (chance(25)) appendChar(text, SC_ASTRAL); else if (chance(20)) appendChar(text, SC_BMP); else appendChar(text, SC_ASCII);
        }
        boundary = true;
        used |= 1u << SC_ASTRAL;
    } else {
        text = genString(so, &used);
    }
    c["text"] = strToJson(text);
    c["boundary"] = boundary;
    if (chance(20)) { StrOpts po; po.maxLen = 12; c["pre"] = strToJson(genString(po, &used)); } // already formatted by an earlier formatter
    int cr = pick(0, 9);
    if (cr == 0) c["cat"] = QJsonValue(QJsonValue::Null);
    else if (cr == 1) c["cat"] = "";
    else if (cr <= 3) c["cat"] = "default";
    else c["cat"] = QString::fromLatin1(genAscii(16));
    c["file"] = chance(12) ? QJsonValue(QJsonValue::Null) : QJsonValue(QString::fromLatin1(genAscii(30)));
    c["func"] = chance(12) ? QJsonValue(QJsonValue::Null) : QJsonValue(QString::fromLatin1(genAscii(40)));
    c["line"] = pick(0, 100000);
    QJsonArray attrs;
    QStringList names;
    int n = sized(0, 9);
    bool routed = false, arbitrary = false;
    for (int i = 0; i < n; i++) {
        QString name;
        QJsonObject val;
        int r = pick(0, 99);
        if (r < 40) {
            name = QLatin1String(kRoutes[pick(0, 7)].attr);
            StrOpts vo; vo.maxLen = 12;
            val["s"] = strToJson(chance(12) ? QString("") : genString(vo, &used)); // the library's own attribute handlers produce strings (an application that never set a version has "")
        } else if (r < 55) {
            // names of the slots themselves and near misses of the routed names (another letter case, a blank, a longer name): none is routed
            static const char *extraNames[] = { "line", "file", "thread_id", "app_name", "name", "qt_version", "AppName", "APPNAME", "appname ", "app_version",
                                                "OS_NAME", "os_name2", "os", "device", "extra", "tags", "contexts", "Host_Name", "cpu_arch_", "kernelversion", "build", "arch" };
            name = extraNames[pick(0, 21)];
            StrOpts vo; vo.maxLen = 12;
            val = genValue(2, vo, &used, &nested);
        } else {
            StrOpts no; no.maxLen = 8;
            name = chance(60) ? QString::fromLatin1(genAscii(8, true)) : genString(no, &used);
            StrOpts vo; vo.maxLen = 12;
            val = genValue(2, vo, &used, &nested);
        }
        if (names.contains(name)) continue;
        names << name;
        if (routeOf(name)) routed = true; else arbitrary = true;
        attrs.append(QJsonArray { strToJson(name), val });
    }
    c["attrs"] = attrs;
    c["routedAndArbitrary"] = routed && arbitrary;
    StrOpts sdk; sdk.maxLen = 10;
    c["sdkName"] = strToJson(chance(50) ? QStringLiteral("qtlogger.sentry") : genString(sdk, &used));
    c["sdkVersion"] = strToJson(chance(50) ? QStringLiteral("1.0.0") : genString(sdk, &used));
    return c;
}

std::unordered_set<std::string> g_ids;

QString pad(int v, int w) { return QString("%1").arg(v, w, 10, QChar('0')); }

std::string checkEvent(const QString &out, const QJsonObject &c, const LogMessage &lm, std::string *eventId)
{
    const QtMsgType type = lm.type();
    const QString text = lm.message();
    const QByteArray utf8 = out.toUtf8();
    if (QString::fromUtf8(utf8) != out) return "output is not well-formed UTF-16";
    std::string bytes(utf8.constData(), size_t(utf8.size()));
    minijson::Parser parser(bytes);
    minijson::Value v;
    if (!parser.parse(v)) return "event is not valid JSON: " + parser.error() + "; output: " + bytes.substr(0, 300);
    if (v.type != minijson::Value::Object) return "event is not a JSON object";
    using V = minijson::Value;
    auto str = [&](const V *m, const char *what, std::u16string &o) -> std::string {
        if (!m) return std::string(what) + " missing";
        if (m->type != V::String) return std::string(what) + " is not a string";
        o = m->str;
        return "";
    };
    std::string d;
    std::u16string s;
    // event_id
    if (!(d = str(v.get("event_id"), "event_id", s)).empty()) return d;
    if (s.size() != 32) return "event_id is not 32 characters: " + showU16(s).toStdString();
    std::string id;
    for (char16_t ch : s) {
        if (!((ch >= '0' && ch <= '9') || (ch >= 'a' && ch <= 'f'))) return "event_id is not lowercase hex: " + showU16(s).toStdString();
        id.push_back(char(ch));
    }
    *eventId = id;
    // timestamp: UTC, ISO-8601, equal to the message time to the second
    if (!(d = str(v.get("timestamp"), "timestamp", s)).empty()) return d;
    {
        const QDateTime u = lm.time().toUTC();
        const QString want = pad(u.date().year(), 4) + "-" + pad(u.date().month(), 2) + "-" + pad(u.date().day(), 2) + "T"
                + pad(u.time().hour(), 2) + ":" + pad(u.time().minute(), 2) + ":" + pad(u.time().second(), 2);
        const QString got = fromU16(s);
        bool ok = got.startsWith(want);
        QString rest = got.mid(want.size());
        if (ok && rest.startsWith('.')) { int i = 1; while (i < rest.size() && rest[i].isDigit()) i++; ok = i > 1; rest = rest.mid(i); }
        if (ok) ok = (rest == "Z" || rest == "+00:00");
        if (!ok) return "timestamp " + got.toStdString() + " is not the message time in UTC (" + want.toStdString() + "Z)";
    }
    // level
    if (!(d = str(v.get("level"), "level", s)).empty()) return d;
    if (s != u16(QLatin1String(sentryLevel(type)))) return "level is " + showU16(s).toStdString() + " for a " + typeName(type) + " message";
    // message.formatted
    {
        const V *m = v.get("message");
        if (!m || m->type != V::Object) return "message object missing";
        if (!(d = str(m->get("formatted"), "message.formatted", s)).empty()) return d;
        if (s != u16(text)) return "message.formatted " + showU16(s).toStdString() + " != text " + showU16(u16(text)).toStdString();
    }
    // logger
    const QString cat = c["cat"].isNull() ? QString() : c["cat"].toString();
    const bool nonDefault = !cat.isEmpty() && cat != "default";
    {
        const V *m = v.get("logger");
        if (nonDefault) {
            if (!(d = str(m, "logger", s)).empty()) return d;
            if (s != u16(cat)) return "logger " + showU16(s).toStdString() + " != category";
        } else if (m) {
            return "logger field present for the default/empty category";
        }
    }
    // fingerprint
    {
        const V *m = v.get("fingerprint");
        if (!m || m->type != V::Array || m->arr.size() != 3) return "fingerprint is not a 3-element array";
        for (auto &e : m->arr) if (e.type != V::String) return "fingerprint element is not a string";
        if (m->arr[0].str != u16(QLatin1String(sentryLevel(type)))) return "fingerprint[0] is not the level";
        if (m->arr[1].str != u16(cat.isEmpty() ? QStringLiteral("default") : cat)) return "fingerprint[1] " + showU16(m->arr[1].str).toStdString() + " is not the category or \"default\"";
        const std::u16string &p = m->arr[2].str;
        bool ok = false;
        const std::u16string t = u16(text);
        std::u16string first100 = t.substr(0, 100);
        if (p == first100) ok = true;
        if (!ok && t.size() > 100 && first100.back() >= 0xd800 && first100.back() <= 0xdbff) {
            // the 100th unit is the first half of a pair: it may be dropped or appear as U+FFFD
            std::u16string a = t.substr(0, 99), b = a;
            b.push_back(0xfffd);
            ok = (p == a || p == b);
        }
        if (!ok) { // reading "characters" as code points is accepted too
            std::u16string cp;
            int n = 0;
            for (size_t i = 0; i < t.size() && n < 100; n++) {
                cp.push_back(t[i]);
                if (t[i] >= 0xd800 && t[i] <= 0xdbff && i + 1 < t.size()) { cp.push_back(t[i + 1]); i += 2; } else i++;
            }
            ok = (p == cp);
        }
        if (!ok) return "fingerprint[2] " + showU16(p).toStdString() + " is not the first 100 characters of the message";
    }
    // custom attributes: exactly once, value intact
    const V *extra = v.get("extra");
    for (auto av : c["attrs"].toArray()) {
        const QString name = strFromJson(av.toArray()[0]);
        const QJsonObject val = av.toArray()[1].toObject();
        const Route *r = routeOf(name);
        const V *inExtra = (extra && extra->type == V::Object) ? extra->get(u16(name)) : nullptr;
        if (r) {
            const V *m = &v;
            std::string path;
            for (int i = 0; i < 3 && r->path[i] && m; i++) { m = m->type == V::Object ? m->get(r->path[i]) : nullptr; path += std::string(i ? "." : "") + r->path[i]; }
            if (!m) return "attribute '" + name.toStdString() + "' missing from its slot " + path;
            std::string diff = sameValue(*m, val, path);
            if (!diff.empty()) return diff;
            if (inExtra) return "attribute '" + name.toStdString() + "' appears twice: in " + path + " and under extra";
        } else {
            if (!inExtra) return "attribute " + showU16(u16(name)).toStdString() + " missing from extra";
            std::string diff = sameValue(*inExtra, val, "extra." + showU16(u16(name)).toStdString());
            if (!diff.empty()) return diff;
        }
    }
    return "";
}

std::string run(const QJsonObject &c)
{
    const QtMsgType type = kTypes[c["type"].toInt()];
    const QString text = strFromJson(c["text"]);
    const bool catNull = c["cat"].isNull(), fileNull = c["file"].isNull(), funcNull = c["func"].isNull();
    const QByteArray cat = c["cat"].toString().toLatin1(), file = c["file"].toString().toLatin1(), func = c["func"].toString().toLatin1();
    QMessageLogContext ctx(fileNull ? nullptr : file.constData(), c["line"].toInt(), funcNull ? nullptr : func.constData(), catNull ? nullptr : cat.constData());
    LogMessage lm(type, ctx, text);
    for (auto av : c["attrs"].toArray())
        lm.setAttribute(strFromJson(av.toArray()[0]), toVariant(av.toArray()[1].toObject()));
    if (c.contains("pre")) { lm.setFormattedMessage(strFromJson(c["pre"])); cls("message_already_formatted_by_an_earlier_formatter", true); }

    SentryFormatter f(strFromJson(c["sdkName"]), strFromJson(c["sdkVersion"]));
    std::string id1, id2;
    std::string d = checkEvent(f.format(lm), c, lm, &id1);
    if (!d.empty()) return d;
    {
        // a formatter object that lives for the whole run (as in a configured pipeline) sees messages with different attribute sets
        // one after the other: every event carries the attributes of ITS message
        static SentryFormatter longLived(QStringLiteral("verif.sdk"), QStringLiteral("1"));
        std::string id0;
        d = checkEvent(longLived.format(lm), c, lm, &id0);
        if (!d.empty()) return "formatter object used for many messages: " + d;
        cls("long_lived_formatter_object", true);
    }
    d = checkEvent(f.format(lm), c, lm, &id2); // the same message again: a fresh id
    if (!d.empty()) return d;
    if (id1 == id2) return "two events got the same event_id " + id1;
    for (auto &id : { id1, id2 })
        if (!g_ids.insert(id).second) return "event_id " + id + " was used before in this run";
    count("event_ids_checked_unique", 2);

    const bool boundaryHard = c["boundary"].toBool();
    cls("routed_and_arbitrary_attribute", c["routedAndArbitrary"].toBool());
    cls("text_around_100_units_with_astral", boundaryHard);
    cls("default_or_empty_category", c["cat"].isNull() || cat.isEmpty() || cat == "default");
    cls(std::string("type_") + typeName(type));
    noteCase(c, c["routedAndArbitrary"].toBool() || boundaryHard);
    return "";
}

} // namespace

int main()
{
    return harnessMain("C18 Sentry events carry the message faithfully", generate, run);
}
