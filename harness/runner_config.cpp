// C19 runner. Two modes, chosen by the scenario file:
//   mode "ini" / "oneline": configures the Logger singleton through the INI front-end (keys written with QSettings itself) or the
//       one-line configure(path, size, count, options, async), emits the message stream through Qt's logging macros, leaves
//       through QTimer -> quit() so that asynchronous mode drains. stdout, stderr and the log directory are read by the driver.
//   mode "history": executes install / foreign / restore / probe operations and prints, after each one, which handler Qt has
//       installed and who received a probe message (one JSON object per line on stdout).
// usage: runner_config <scenario.json>
#include <QCoreApplication>
#include <QFile>
#include <QJsonArray>
#include <QJsonDocument>
#include <QJsonObject>
#include <QLoggingCategory>
#include <QSettings>
#include <QTimer>

#include <memory>

#include <cstdio>
#include <condition_variable>
#include <functional>
#include <mutex>
#include <thread>

#include "qtlogger/qtlogger.h"

using namespace QtLogger;

Q_LOGGING_CATEGORY(lcCore, "app.core")
Q_LOGGING_CATEGORY(lcNet, "app.net")
Q_LOGGING_CATEGORY(lcDb, "db")

static const QLoggingCategory *catByName(const QString &n)
{
    if (n == "app.core") return &lcCore();
    if (n == "app.net") return &lcNet();
    if (n == "db") return &lcDb();
    return nullptr; // default category
}

static void emitMessage(int type, const QString &cat, const QByteArray &text)
{
    const QLoggingCategory *c = catByName(cat);
    switch (type) {
    case 0: if (c) qCDebug((*c), "%s", text.constData()); else qDebug("%s", text.constData()); break;
    case 1: if (c) qCInfo((*c), "%s", text.constData()); else qInfo("%s", text.constData()); break;
    case 2: if (c) qCWarning((*c), "%s", text.constData()); else qWarning("%s", text.constData()); break;
    default: if (c) qCCritical((*c), "%s", text.constData()); else qCritical("%s", text.constData()); break;
    }
}

// A persistent worker thread that runs one task at a time while the caller waits: messages keep their stream order, but come
// from different threads (the pretty layout labels threads, the logger records the originating thread).
struct Lane
{
    std::mutex m;
    std::condition_variable cv;
    std::function<void()> task;
    bool has = false, done = false, quit = false;
    std::thread th;
    Lane() : th([this] { loop(); }) { }
    void loop()
    {
        std::unique_lock<std::mutex> l(m);
        for (;;) {
            cv.wait(l, [&] { return has || quit; });
            if (quit) return;
            l.unlock();
            task();
            l.lock();
            has = false;
            done = true;
            cv.notify_all();
        }
    }
    void run(std::function<void()> f)
    {
        std::unique_lock<std::mutex> l(m);
        task = std::move(f);
        has = true;
        done = false;
        cv.notify_all();
        cv.wait(l, [&] { return done; });
    }
    ~Lane()
    {
        { std::lock_guard<std::mutex> l(m); quit = true; }
        cv.notify_all();
        th.join();
    }
};

// ------------------------------------------------------------------------------------------------ history mode
static QString g_lastReceiver;
static void foreign1(QtMsgType, const QMessageLogContext &, const QString &) { g_lastReceiver = "F1"; }
static void foreign2(QtMsgType, const QMessageLogContext &, const QString &) { g_lastReceiver = "F2"; }
static void foreign3(QtMsgType, const QMessageLogContext &, const QString &) { g_lastReceiver = "F3"; }

static int runHistory(const QJsonObject &sc)
{
    // keep the process's default handler quiet and recognisable: install a base handler "F0" first (the application's own)
    QtMessageHandler defaultHandler = qInstallMessageHandler(nullptr);
    Logger *A = new Logger(), *B = new Logger();
    *A << FunctionHandlerPtr::create([](LogMessage &) { g_lastReceiver = "A"; return true; });
    *B << FunctionHandlerPtr::create([](LogMessage &) { g_lastReceiver = "B"; return true; });
    auto name = [&](QtMessageHandler h) -> QString {
        if (h == foreign1) return "F1";
        if (h == foreign2) return "F2";
        if (h == foreign3) return "F3";
        if (h == Logger::messageHandler) return "LOGGER";
        if (h == defaultHandler || h == nullptr) return "DEFAULT";
        return "UNKNOWN";
    };
    for (auto ov : sc["ops"].toArray()) {
        const QString op = ov.toString();
        if (op == "installA") A->installMessageHandler();
        else if (op == "installB") B->installMessageHandler();
        else if (op == "F1") qInstallMessageHandler(foreign1);
        else if (op == "F2") qInstallMessageHandler(foreign2);
        else if (op == "F3") qInstallMessageHandler(foreign3);
        else if (op == "restore") Logger::restorePreviousMessageHandler();
        // observe: which handler does Qt hold now (read it out and put it back)
        QtMessageHandler cur = qInstallMessageHandler(nullptr);
        qInstallMessageHandler(cur == defaultHandler ? nullptr : cur);
        QString receiver = "-";
        if (cur != defaultHandler) { // a probe through the default handler would only print to stderr
            g_lastReceiver = "nobody";
            qInfo("probe");
            receiver = g_lastReceiver;
        }
        printf("{\"op\": \"%s\", \"handler\": \"%s\", \"receiver\": \"%s\"}\n", qPrintable(op), qPrintable(name(cur)), qPrintable(receiver));
    }
    fflush(stdout);
    qInstallMessageHandler(nullptr);
    delete A;
    delete B;
    return 0;
}

// ------------------------------------------------------------------------------------------------ configuration modes
int main(int argc, char **argv)
{
    if (argc < 2) return 64;
    QFile sf(QString::fromLocal8Bit(argv[1]));
    if (!sf.open(QIODevice::ReadOnly)) return 64;
    const QJsonObject sc = QJsonDocument::fromJson(sf.readAll()).object();
    const QString mode = sc["mode"].toString();
    if (mode == "history") return runHistory(sc);

    QCoreApplication app(argc, argv);
    const QString dir = sc["dir"].toString();
    if (mode == "ini") {
        const QString ini = dir + "/../logger.ini";
        {
            QSettings s(ini, QSettings::IniFormat);
            const QJsonObject keys = sc["keys"].toObject();
            for (auto it = keys.begin(); it != keys.end(); ++it) {
                QVariant v = it.value().toVariant();
                if (it.key() == "path") v = dir + "/" + v.toString();
                s.setValue(sc["group"].toString("logger") + "/" + it.key(), v);
            }
            s.sync();
        }
        if (sc["viaSettings"].toBool()) {
            QSettings s(ini, QSettings::IniFormat);
            gQtLogger.configure(s, sc["group"].toString("logger"));
        } else if (sc["group"].toString("logger") == "logger") {
            gQtLogger.configureFromIniFile(ini);
        } else {
            gQtLogger.configureFromIniFile(ini, sc["group"].toString());
        }
    } else { // oneline
        const QJsonObject a = sc["args"].toObject();
        RotatingFileSink::Options opt;
        if (a["startup"].toBool()) opt |= RotatingFileSink::RotationOnStartup;
        if (a["daily"].toBool()) opt |= RotatingFileSink::RotationDaily;
        if (a["compress"].toBool()) opt |= RotatingFileSink::Compression;
        const QString path = a["path"].toString().isEmpty() ? QString() : dir + "/" + a["path"].toString();
        if (a.contains("async")) gQtLogger.configure(path, a["size"].toInt(), a["count"].toInt(), opt, a["async"].toBool());
        else gQtLogger.configure(path, a["size"].toInt(), a["count"].toInt(), opt);
    }
    {
        std::unique_ptr<Lane> lanes[3];
        for (auto mv : sc["messages"].toArray()) {
            const QJsonObject m = mv.toObject();
            const int thr = qBound(0, m["thr"].toInt(), 3);
            auto emitIt = [&] { emitMessage(m["type"].toInt(), m["cat"].toString(), m["text"].toString().toUtf8()); };
            if (thr == 0) { emitIt(); continue; }
            if (!lanes[thr - 1]) lanes[thr - 1].reset(new Lane);
            lanes[thr - 1]->run(emitIt);
        }
    }
    QTimer::singleShot(0, &app, &QCoreApplication::quit);
    const int rc = app.exec();
    gQtLogger.flush();
    fflush(stdout);
    fflush(stderr);
    return rc;
}
