// C03 — asynchronous hand-off preserves message content and order; handler work happens on the logger thread only;
// the logging call never runs a sink and never blocks on one.
//
// Case: { subject: "bare"|"logger", producers, msgs: [ {p, type, text, file, func, cat (string|null), line} ... ],
//         attrs: [[name, value]...], gate: bool, sinkDelayUs, burst: bool }
// "bare":   outer Pipeline [ attribute handler, formatter, OwnThreadHandler<Pipeline>(moved to its own thread) [ recording sink ] ];
//           producers build LogMessages over heap C strings that are overwritten and freed as soon as process() returns.
// "logger": a Logger object installed as Qt message handler and moved to its own thread; producers use the logging macros.
// Oracle: synchronous twin of every message vs what the worker-side sink sees; FIFO per producer and across producers for calls
// that did not overlap (global ticket taken before and after every call); thread identity; with the gate closed every call returns.
#include "common/jsonval.h"

#include "qtlogger/qtlogger.h"

#include <QCoreApplication>

#include <atomic>
#include <chrono>
#include <condition_variable>
#include <future>
#include <mutex>
#include <thread>

#include <unistd.h>

using namespace QtLogger;
using namespace verif;

namespace {

struct Twin
{
    int id = 0, producer = 0, type = 0, line = 0;
    QString text;
    bool fileNull = false, funcNull = false, catNull = false;
    QByteArray file, func, cat;
    QDateTime time;
    std::chrono::steady_clock::time_point steady;
    quint64 threadId = 0;
    long ticketBegin = 0, ticketEnd = 0;
    bool haveTime = false;
};

struct Seen
{
    int id = -1;
    int type = 0, line = 0;
    QString text, formatted;
    bool fileNull = false, funcNull = false, catNull = false;
    QByteArray file, func, cat;
    QDateTime time;
    std::chrono::steady_clock::time_point steady;
    quint64 threadId = 0;
    QVariantHash attrs;
    QThread *handlerThread = nullptr;
};

QJsonValue genCtx(int maxLen, bool allowNull)
{
    if (allowNull && chance(25)) return QJsonValue(QJsonValue::Null);
    return QString::fromLatin1(genAscii(maxLen));
}

QJsonObject generate()
{
    QJsonObject c;
    c["subject"] = chance(65) ? "bare" : "logger";
    const int P = pick(1, 6);
    c["producers"] = P;
    c["gate"] = chance(60);
    static const int delays[] = { 0, 0, 50, 300, 2000 };
    c["sinkDelayUs"] = delays[pick(0, 4)];
    c["burst"] = chance(50);
    // every echoEvery-th message makes the sink log a follow-up message from the logger thread itself (0 = never)
    c["echoEvery"] = chance(40) ? pick(1, 5) : 0;
    // where the source-location strings live: fresh heap blocks freed after the call, or one scratch buffer per producer that is
    // overwritten with the next message's strings (same address, different content - what a scripting bridge does)
    c["scratch"] = chance(50);
    QJsonArray msgs;
    const int n = 1 + sized(0, 60);
    StrOpts so;
    so.maxLen = 20;
    so.allowNull = true;
    for (int i = 0; i < n; i++) {
        QJsonObject m;
        m["p"] = pick(0, P - 1);
        m["type"] = chance(12) ? 4 : pick(0, 3); // a fatal message is handed over like any other (through Qt's macros it would abort: the logger subject sends it as critical)
        m["text"] = strToJson(genString(so));
        m["file"] = genCtx(30, true);
        m["func"] = genCtx(40, true);
        m["cat"] = genCtx(12, true);
        m["line"] = chance(80) ? pick(0, 9999) : *rc::gen::arbitrary<int>();
        msgs.append(m);
    }
    c["msgs"] = msgs;
    QJsonArray attrs;
    const int na = pick(0, 3);
    for (int i = 0; i < na; i++)
        attrs.append(QJsonArray { QString("k%1").arg(i), chance(50) ? QJsonValue(pick(-5, 500)) : QJsonValue(QString::fromLatin1(genAscii(8))) });
    c["attrs"] = attrs;
    return c;
}

std::string showBytes(const QByteArray &b, bool isNull) { return isNull ? "<null>" : "'" + b.toStdString() + "'"; }

// a case that does not finish is a failure of the property (a log call or the stop blocks for ever), not a harness problem:
// the watchdog records the running case and ends the process with the "falsified" status
std::atomic<long long> g_caseDeadlineMs { 0 };
std::atomic<long> g_progress { 0 }; // bumped by every log call and every sink invocation
void startWatchdog()
{
    static bool started = false;
    if (started) return;
    started = true;
    std::thread([] {
        long lastProgress = -1;
        long long lastChange = 0;
        for (;;) {
            std::this_thread::sleep_for(std::chrono::milliseconds(500));
            const long long d = g_caseDeadlineMs.load();
            const long long nowMs = std::chrono::duration_cast<std::chrono::milliseconds>(std::chrono::steady_clock::now().time_since_epoch()).count();
            const long pr = g_progress.load();
            if (pr != lastProgress || d == 0) { lastProgress = pr; lastChange = nowMs; }
            // no log call returned and no message was delivered for 60 s, and the case is older than 90 s
            if (d > 0 && nowMs > d && nowMs - lastChange > 60000) {
                failCase(currentCase(), "the case made no progress for 60 s: a log call, the worker or the stop of the logger thread blocks for ever (e.g. a log call made by a sink on the logger thread deadlocks)");
                dumpStats(false);
                fprintf(stderr, "WATCHDOG: case did not finish\n");
                _exit(1);
            }
        }
    }).detach();
}
struct CaseTimer
{
    CaseTimer() { startWatchdog(); g_caseDeadlineMs = std::chrono::duration_cast<std::chrono::milliseconds>(std::chrono::steady_clock::now().time_since_epoch()).count() + 90000; }
    ~CaseTimer() { g_caseDeadlineMs = 0; }
};

std::string run(const QJsonObject &c)
{
    CaseTimer caseTimer;
    const bool bare = c["subject"].toString() != "logger";
    const int P = c["producers"].toInt();
    const bool gate = c["gate"].toBool();
    const int sinkDelayUs = c["sinkDelayUs"].toInt();
    const QJsonArray jm = c["msgs"].toArray();
    const int n = jm.size();
    QVariantHash attrs;
    for (auto av : c["attrs"].toArray()) attrs.insert(av.toArray()[0].toString(), av.toArray()[1].toVariant());

    const int echoEvery = c["echoEvery"].toInt();
    std::vector<Twin> twins{ size_t(2 * n) }; // [n, 2n): follow-up messages logged by the sink (id = n + id of the message that caused it)
    std::vector<char> expected(size_t(2 * n), 0);
    for (int i = 0; i < n; i++) { expected[size_t(i)] = 1; if (echoEvery > 0 && i % echoEvery == 0) expected[size_t(n + i)] = 1; }
    std::vector<Seen> seen;
    seen.reserve(size_t(2 * n) + 8);
    std::atomic<int> sinkReentered { 0 };
    std::function<void(int)> logEcho; // set below, once the subject exists
    std::mutex seenMutex;
    std::mutex gateMutex;
    std::condition_variable gateCv;
    bool gateOpen = !gate;
    std::atomic<long> ticket { 0 };
    std::atomic<int> sinkOnProducerThread { 0 };
    std::vector<std::thread::id> producerIds{ size_t(P) };
    std::vector<QThread *> producerQThreads{ size_t(P), nullptr };

    auto sink = FunctionHandlerPtr::create([&](LogMessage &m) {
        g_progress++;
        thread_local static int depth = 0;
        struct Depth { int &d; Depth(int &x) : d(x) { ++d; } ~Depth() { --d; } } guard(depth);
        if (depth > 1) sinkReentered++;
        {
            std::unique_lock<std::mutex> lk(gateMutex);
            gateCv.wait(lk, [&] { return gateOpen; });
        }
        if (sinkDelayUs > 0) std::this_thread::sleep_for(std::chrono::microseconds(sinkDelayUs));
        Seen s;
        s.text = m.message();
        s.type = typeIndex(m.type());
        s.line = m.line();
        s.fileNull = m.file() == nullptr; s.funcNull = m.function() == nullptr; s.catNull = m.category() == nullptr;
        s.file = QByteArray(m.file()); s.func = QByteArray(m.function()); s.cat = QByteArray(m.category());
        s.time = m.time(); s.steady = m.steadyTime(); s.threadId = m.threadId();
        s.formatted = m.isFormatted() ? m.formattedMessage() : QString();
        s.attrs = m.attributes();
        s.handlerThread = QThread::currentThread();
        // id travels in an attribute set before the hand-off (bare) or in the text (logger)
        if (m.hasAttribute(QStringLiteral("__id"))) s.id = m.attribute(QStringLiteral("__id")).toInt();
        else { const int at = s.text.lastIndexOf(QLatin1String("#id")); if (at >= 0) s.id = s.text.mid(at + 3).toInt(); }
        for (auto &pid : producerIds) if (pid == std::this_thread::get_id()) sinkOnProducerThread++;
        {
            std::lock_guard<std::mutex> lk(seenMutex);
            seen.push_back(s);
        }
        if (echoEvery > 0 && s.id >= 0 && s.id < n && s.id % echoEvery == 0 && logEcho) logEcho(s.id);
        return true;
    });

    Pipeline outer;
    OwnThreadHandler<Pipeline> *async = nullptr;
    Logger *logger = nullptr;
    thread_local static int tlsCurrentId = -1;
    if (bare) {
        async = new OwnThreadHandler<Pipeline>();
        *async << sink;
        outer << FunctionHandlerPtr::create([&](LogMessage &m) { // attribute handler + formatter before the hand-off, on the caller's thread
            m.updateAttributes(attrs);
            m.setAttribute(QStringLiteral("__id"), tlsCurrentId);
            m.setFormattedMessage(QStringLiteral("F(") + m.message() + QStringLiteral(")"));
            return true;
        });
        outer << HandlerPtr(async, [](Handler *) {}); // owned by this function
        async->moveToOwnThread();
    } else {
        logger = new Logger();
        *logger << sink;
        logger->installMessageHandler();
        logger->moveToOwnThread();
    }
    QThread *ownThread = bare ? async->ownThread() : logger->ownThread();
    if (!ownThread) { delete async; delete logger; return "harness problem: moveToOwnThread() did not start a thread (no QCoreApplication?)"; }

    // a log call issued on the logger's own thread (a handler that logs, an object living on that thread)
    logEcho = [&](int cause) {
        const int id = n + cause;
        Twin &t = twins[size_t(id)];
        t.id = id; t.producer = P; t.type = 1; t.line = cause;
        t.file = "echo.cpp"; t.func = "echo()"; t.cat = "default";
        if (bare) {
            t.text = QStringLiteral("echo of %1").arg(cause);
            QMessageLogContext ctx("echo.cpp", cause, "echo()", "default");
            LogMessage m2(QtInfoMsg, ctx, t.text);
            t.time = m2.time(); t.steady = m2.steadyTime(); t.threadId = m2.threadId(); t.haveTime = true;
            tlsCurrentId = id;
            t.ticketBegin = ticket++;
            outer.process(m2);
            t.ticketEnd = ticket++;
        } else {
            { QMessageLogContext ctx; LogMessage probe(QtDebugMsg, ctx, QString()); t.threadId = probe.threadId(); }
            t.text = QStringLiteral("echo of %1#id%2").arg(cause).arg(id);
            const QByteArray u = t.text.toUtf8();
            t.ticketBegin = ticket++;
            QMessageLogger("echo.cpp", cause, "echo()", "default").info("%s", u.constData());
            t.ticketEnd = ticket++;
        }
    };

    // ---- producers ----
    std::vector<std::vector<int>> perProducer{ size_t(P) };
    for (int i = 0; i < n; i++) perProducer[size_t(jm[i].toObject()["p"].toInt())].push_back(i);
    std::atomic<bool> go { false };
    const bool burst = c["burst"].toBool();
    const bool scratch = c["scratch"].toBool();
    cls("reused_scratch_buffers", scratch && bare);
    auto producer = [&](int p) {
        std::vector<char> sbFile(64), sbFunc(64), sbCat(64);
        producerIds[size_t(p)] = std::this_thread::get_id();
        producerQThreads[size_t(p)] = QThread::currentThread();
        while (!go) std::this_thread::yield();
        for (int i : perProducer[size_t(p)]) {
            const QJsonObject jmO = jm[i].toObject();
            Twin &t = twins[size_t(i)];
            t.id = i; t.producer = p; t.type = jmO["type"].toInt(); t.line = jmO["line"].toInt();
            t.text = strFromJson(jmO["text"]);
            t.fileNull = jmO["file"].isNull(); t.funcNull = jmO["func"].isNull(); t.catNull = jmO["cat"].isNull();
            t.file = jmO["file"].toString().toLatin1(); t.func = jmO["func"].toString().toLatin1(); t.cat = jmO["cat"].toString().toLatin1();
            if (!burst) std::this_thread::yield();
            if (bare) {
                // heap buffers that die right after the call
                auto place = [&](std::vector<char> &buf, const QByteArray &v, bool isNull) -> char * {
                    if (isNull) return nullptr;
                    if (!scratch) return strdup(v.constData());
                    memset(buf.data(), 0, buf.size());
                    memcpy(buf.data(), v.constData(), size_t(qMin(v.size(), int(buf.size()) - 1)));
                    return buf.data();
                };
                char *f = place(sbFile, t.file, t.fileNull);
                char *fn = place(sbFunc, t.func, t.funcNull);
                char *ca = place(sbCat, t.cat, t.catNull);
                {
                    QMessageLogContext ctx(f, t.line, fn, ca);
                    LogMessage m(kTypes[t.type], ctx, t.text);
                    t.time = m.time(); t.steady = m.steadyTime(); t.threadId = m.threadId(); t.haveTime = true;
                    tlsCurrentId = i;
                    t.ticketBegin = ticket++;
                    outer.process(m);
                    t.ticketEnd = ticket++;
                    g_progress++;
                }
                if (f) { memset(f, 'X', strlen(f)); if (!scratch) free(f); }
                if (fn) { memset(fn, 'X', strlen(fn)); if (!scratch) free(fn); }
                if (ca) { memset(ca, 'X', strlen(ca)); if (!scratch) free(ca); }
            } else {
                { QMessageLogContext ctx; LogMessage probe(QtDebugMsg, ctx, QString()); t.threadId = probe.threadId(); }
                const QByteArray utf8 = (t.text + QStringLiteral("#id%1").arg(i)).toUtf8();
                // text travels through printf-style formatting: NUL would cut it, so the logger subject replaces it
                QByteArray safe = utf8; safe.replace('\0', '?');
                t.text = QString::fromUtf8(safe);
                if (t.type == 4) t.type = 3;
                t.ticketBegin = ticket++;
                QMessageLogger ml(t.fileNull ? nullptr : t.file.constData(), t.line, t.funcNull ? nullptr : t.func.constData(), t.catNull ? "default" : t.cat.constData());
                switch (t.type) {
                case 0: ml.debug("%s", safe.constData()); break;
                case 1: ml.info("%s", safe.constData()); break;
                case 2: ml.warning("%s", safe.constData()); break;
                default: ml.critical("%s", safe.constData()); break;
                }
                t.ticketEnd = ticket++;
                if (t.catNull) { t.catNull = false; t.cat = "default"; }
            }
        }
    };
    std::vector<std::future<void>> futs;
    for (int p = 0; p < P; p++) futs.push_back(std::async(std::launch::async, producer, p));
    go = true;
    // "blocked" = no log call begins or returns for 20 s although producers are still inside their loops (progress is read off the
    // ticket counter, so a slow machine is never mistaken for a blocked call)
    bool blocked = false;
    {
        long lastTicket = -1;
        auto lastProgress = std::chrono::steady_clock::now();
        for (;;) {
            bool allReady = true;
            for (auto &f : futs)
                if (f.wait_for(std::chrono::milliseconds(0)) != std::future_status::ready) allReady = false;
            if (allReady) break;
            const long t = ticket.load();
            const auto now = std::chrono::steady_clock::now();
            if (t != lastTicket) { lastTicket = t; lastProgress = now; }
            else if (now - lastProgress > std::chrono::seconds(20)) { blocked = true; break; }
            std::this_thread::sleep_for(std::chrono::milliseconds(1));
        }
    }
    int queuedAtGateOpening = 0;
    {
        std::lock_guard<std::mutex> lk(seenMutex);
        queuedAtGateOpening = n - int(seen.size());
    }
    {
        std::lock_guard<std::mutex> lk(gateMutex);
        gateOpen = true;
    }
    gateCv.notify_all();
    for (auto &f : futs) f.wait();
    if (bare) async->resetOwnThread(); else { logger->resetOwnThread(); Logger::restorePreviousMessageHandler(); }
    delete async;
    delete logger;

    // ---- statistics ----
    bool anyNull = false, mixedTypes = false;
    for (int i = 0; i < n; i++) { const Twin &t = twins[size_t(i)]; anyNull |= t.fileNull || t.funcNull || t.catNull; mixedTypes |= t.type != twins[0].type; }
    cls("log_calls_on_the_logger_thread", echoEvery > 0);
    cls("subject_bare", bare);
    cls("gate_closed", gate);
    cls("null_context_pointer", anyNull);
    cls("producers>=2", P >= 2);
    cls("queue_depth>=8_at_gate_opening", gate && queuedAtGateOpening >= 8);
    cls("slow_sink", sinkDelayUs >= 300);
    count("messages", n);
    noteCase(c, P >= 2 && anyNull && bare && mixedTypes && (!gate || queuedAtGateOpening >= 8));

    // ---- oracle ----
    if (blocked && gate)
        return "a log call did not return within 20 s while the sink was blocked: the logging call waits for a sink";
    if (sinkOnProducerThread.load() > 0)
        return "the sink ran " + std::to_string(sinkOnProducerThread.load()) + " times on a producer's thread while the handler was in asynchronous mode";
    if (sinkReentered.load() > 0)
        return "a log call made on the logger's own thread ran the sink inside the call (" + std::to_string(sinkReentered.load()) + " times) instead of queueing the message";
    std::vector<int> deliveredAt(size_t(2 * n), -1);
    for (size_t k = 0; k < seen.size(); k++) {
        const Seen &s = seen[k];
        if (s.id < 0 || s.id >= 2 * n || !expected[size_t(s.id)]) return "delivery #" + std::to_string(k) + " is no message that was logged (text " + showU16(u16(s.text)).toStdString() + ")";
        if (deliveredAt[size_t(s.id)] >= 0) return "message " + std::to_string(s.id) + " delivered twice";
        deliveredAt[size_t(s.id)] = int(k);
        const Twin &t = twins[size_t(s.id)];
        const std::string who = "message " + std::to_string(s.id) + " (producer " + std::to_string(t.producer) + "): ";
        if (s.handlerThread != ownThread) return who + "handled on a thread that is not the logger's own thread";
        if (s.type != t.type) return who + "type " + typeName(kTypes[s.type]) + " instead of " + typeName(kTypes[t.type]);
        if (s.text != t.text) return who + "text " + showU16(u16(s.text)).toStdString() + " instead of " + showU16(u16(t.text)).toStdString();
        if (s.line != t.line) return who + "line " + std::to_string(s.line) + " instead of " + std::to_string(t.line);
        // the copy re-homes the strings; null and "" are identified
        if (s.file != t.file) return who + "file " + showBytes(s.file, s.fileNull) + " instead of " + showBytes(t.file, t.fileNull);
        if (s.func != t.func) return who + "function " + showBytes(s.func, s.funcNull) + " instead of " + showBytes(t.func, t.funcNull);
        if (s.cat != t.cat) return who + "category " + showBytes(s.cat, s.catNull) + " instead of " + showBytes(t.cat, t.catNull);
        if (s.threadId != t.threadId) return who + "originating-thread id changed during the hand-off";
        if (t.haveTime) {
            if (s.time != t.time) return who + "timestamp changed during the hand-off (" + s.time.toString(Qt::ISODateWithMs).toStdString() + " vs " + t.time.toString(Qt::ISODateWithMs).toStdString() + ")";
            if (s.steady != t.steady) return who + "steady-clock stamp changed during the hand-off";
        }
        if (bare) {
            if (s.formatted != QStringLiteral("F(") + t.text + QStringLiteral(")")) return who + "formatted text set before the hand-off arrived as " + showU16(u16(s.formatted)).toStdString();
            QVariantHash want = attrs;
            want.insert(QStringLiteral("__id"), s.id);
            if (s.attrs != want) return who + "attributes set before the hand-off did not arrive intact";
        }
    }
    for (int i = 0; i < 2 * n; i++)
        if (expected[size_t(i)] && deliveredAt[size_t(i)] < 0) return "message " + std::to_string(i) + (i >= n ? " (logged on the logger thread by the sink)" : "") + " was never delivered (" + std::to_string(seen.size()) + " arrived)";
    // FIFO: per producer in program order; across producers for calls that did not overlap
    {
        std::vector<long> last(size_t(P) + 1, -1); // per producer: ticket of the latest delivered call (program order = ticket order)
        std::vector<int> lastId(size_t(P) + 1, -1);
        long maxBegin = -1;
        int maxBeginId = -1;
        for (auto &s : seen) {
            const Twin &t = twins[size_t(s.id)];
            if (t.ticketBegin < last[size_t(t.producer)]) return "producer " + std::to_string(t.producer) + ": message " + std::to_string(s.id) + " delivered after message " + std::to_string(lastId[size_t(t.producer)]) + " which the same thread logged later";
            last[size_t(t.producer)] = t.ticketBegin;
            lastId[size_t(t.producer)] = s.id;
            if (maxBegin > t.ticketEnd)
                return "message " + std::to_string(s.id) + " was logged (call returned) before the call for message " + std::to_string(maxBeginId) + " began, but was delivered after it";
            if (t.ticketBegin > maxBegin) { maxBegin = t.ticketBegin; maxBeginId = s.id; }
        }
    }
    return "";
}

} // namespace

int main(int argc, char **argv)
{
    QCoreApplication app(argc, argv);
    return harnessMain("C03 asynchronous hand-off preserves content and order", generate, run);
}
