// C05 C06 C07 C08 C09 — the rotating file sink, one model-based harness.
//
// Case:   { cfg:{L,N,startup,daily,compress,name,gran,start}, ops:[ ... ] }
//   ops:  {o:"w", text, flush}      write one record (send [+ flush])
//         {o:"big", cls, len, seed} write one large record expanded deterministically
//         {o:"adv", ms}             advance the virtual wall clock
//         {o:"restart"}             destroy the sink and create a new one on the same directory
//         {o:"flush"}               flush
//         {o:"plant", name}         create a foreign file with a look-alike name
//         {o:"twin"}                give the newest rotated file its plain / compressed twin (what a process killed between completing
//                                   the .gz and removing the original leaves behind - see C10); the file-count bound is then due again
//                                   with the next rotation (retention runs when the sink rotates)
// Oracle: after every (flushed) operation the directory is read back (every *.gz through zlib's
//         gzip decoder) and compared with the stream of records written so far; see the
//         invariants tagged C05..C09 in check(). VERIF_PROP selects which property's invariant
//         is reported (a failure of another property's invariant ends the case silently and is
//         left to that property's own check).
#include "common/gen.h"
#include "common/rotmodel.h"
#include "common/shim.h"

#include "qtlogger/sinks/rotatingfilesink.h"

#include <QDir>

#include <atomic>
#include <clocale>
#include <thread>
#include <cstring>
#include <set>

using namespace QtLogger;
using namespace verif;
using namespace rotmodel;

namespace {

const long long kDayMs = 86400000LL;
const long long kEpoch0 = 1431648000000LL; // 2015-05-15T00:00:00Z (virtual times stay far below the real clock)
const time_t kRealClockFloor = 1577836800;     // 2020-01-01: an mtime above this was set by the kernel, not by stamp()

std::string g_prop;
bool wants(const char *tag) { return g_prop == "ALL" || g_prop == tag; }

// The calendar day of an instant: in the process' time zone (what a user calls the day, and what QDate::currentDate() and
// LogMessage::time() report) and in UTC. The zone is part of the generated configuration (setZone); computed with libc, not Qt.
std::string dayUtc(long long ms)
{
    time_t t = time_t(ms / 1000);
    struct tm tm;
    gmtime_r(&t, &tm);
    char b[16];
    strftime(b, sizeof b, "%Y-%m-%d", &tm);
    return b;
}
std::string dayOf(long long ms)
{
    time_t t = time_t(ms / 1000);
    struct tm tm;
    localtime_r(&t, &tm);
    char b[16];
    strftime(b, sizeof b, "%Y-%m-%d", &tm);
    return b;
}
void setZone(const std::string &tz)
{
    setenv("TZ", tz.empty() ? "UTC" : tz.c_str(), 1);
    tzset();
}
// milliseconds from `ms` to the next local midnight (DST days have 23 or 25 hours, Lord Howe moves by 30 minutes)
long long msToNextLocalMidnight(long long ms)
{
    time_t t = time_t(ms / 1000);
    struct tm tm;
    localtime_r(&t, &tm);
    tm.tm_mday += 1; tm.tm_hour = 0; tm.tm_min = 0; tm.tm_sec = 0; tm.tm_isdst = -1;
    time_t m = mktime(&tm);
    long long d = (long long)m * 1000 - ms;
    if (d <= 0 || d > 26 * 3600000LL) d = kDayMs - ms % kDayMs; // zones that skip a whole day (none in the menu): fall back to UTC
    return d;
}
// zones: UTC three times (the plain case), far east/west of it, half-hour offsets, DST zones; starts: an ordinary day, the days of the
// DST switches of the northern and southern zones in the menu, a year boundary, a leap day
const char *kZones[] = { "UTC", "UTC", "UTC", "Asia/Tokyo", "America/Los_Angeles", "Pacific/Kiritimati", "Pacific/Pago_Pago", "Asia/Kolkata",
                         "Europe/Berlin", "Australia/Lord_Howe", "America/St_Johns" };
const long long kStartDays[] = { 0, 0, 0, 0, -68 /* 2015-03-08 US DST starts */, -47 /* 2015-03-29 EU DST starts */, 170 /* 2015-11-01 US DST ends */,
                                 163 /* 2015-10-25 EU DST ends */, 142 /* 2015-10-04 Lord Howe DST starts */, 230 /* 2015-12-31 */, 290 /* 2016-02-29 */ };

// ------------------------------------------------------------------------------ generation
// ".app.log": a hidden file (dot file in a home directory) - directory listings that skip hidden entries would not see its rotated files
// names with characters that are special to a regular expression AND names with characters special to a glob / QDir name filter
// ("srv[1].log": a character class; "open[.log": an unterminated one; '*', '?', '{', '\\'), a name outside ASCII
const char *kNames[] = { "app.log", "app.log", "app.log", "applog", "a+b.log", "app.v1.log", "app (1).log", "x.y.txt", ".app.log",
                         "srv[1].log", "open[.log", "a*b?.log", "app.{x}.log", "a\\d.log", "\xc3\xa9t\xc3\xa9.log", "app.log", "app.log" };
const int kNameCount = int(sizeof kNames / sizeof kNames[0]);

QString uniqueText(int idx, int bytes, int flavour)
{
    // a record of exactly `bytes` UTF-8 bytes, unique by its index where the length allows
    QString head = QString("r%1").arg(idx);
    QString s;
    if (bytes <= 0) return QString("");
    if (head.size() <= bytes) s = head; else s = head.right(bytes);
    while (s.toUtf8().size() < bytes) {
        int room = bytes - s.toUtf8().size();
        if (flavour == 1 && room >= 2) s += QChar(0x00e9);
        else if (flavour == 2 && room >= 3) s += QChar(0x65e5);
        else if (flavour == 8 && room >= 3) s += QChar(idx % 2 ? 0xff21 : 0xfffd);                 // three bytes, ABOVE the surrogate range (U+E000..U+FFFF)
        else if (flavour == 3 && room >= 4) { s += QChar(QChar::highSurrogate(0x1f600)); s += QChar(QChar::lowSurrogate(0x1f600)); }
        else if (flavour == 4 && room >= 1 && s.size() > 2) s += QChar('\n');
        else if (flavour == 6 && room >= 1 && s.size() > 2) s += QChar(bytes % 2 ? '\r' : '\t');   // carriage returns (progress lines, CRLF sources)
        else if (flavour == 7 && room >= 2 && s.size() > 2) { s += QChar('\r'); s += QChar('\n'); }
        else s += QChar('.');
    }
    return s;
}

QJsonObject generate()
{
    const std::string prop = verif::prop();
    // Several compressing sinks (one log each, own directory, own thread - per-subsystem logs of one process) rotating at the same moments.
    // Each sink alone is the sequential subject; what is new is only that the library's code runs in several threads at once.
    if ((prop == "C08" && chance(3)) || (prop == "C05" && chance(1))) {
        QJsonObject par;
        par["threads"] = pick(2, 4);
        par["rounds"] = pick(3, 8);
        static const int plens[] = { 9000, 70000, 300000, 1048577, 1600000 };
        par["len"] = plens[pick(0, prop == "C08" ? 4 : 2)];
        par["cls"] = pick(1, 2);
        par["seed"] = pick(1, 1000000);
        QJsonObject c;
        c["par"] = par;
        return c;
    }
    QJsonObject cfg;
    static const int Ls[] = { 0, 1, 2, 7, 9, 10, 11, 17, 30, 64, 200 };
    int L = Ls[pick(0, 10)];
    static const int Ns[] = { -1, 0, 1, 2, 3, 4, 12 };
    int N = Ns[pick(0, 6)];
    bool startup = chance(35), daily = chance(40), compress = chance(40);
    if (prop == "C06") { N = chance(85) ? pick(2, 4) : N; if (L == 0 && !daily) L = 10; }
    if (prop == "C07") { if (L == 0) L = Ls[pick(1, 10)]; if (N == 1) N = 0; }
    if (prop == "C08") compress = true;
    if (prop == "C09") { daily = chance(90); if (N == 1) N = 3; }
    if (L == 0 && !startup && !daily) { if (chance(50)) daily = true; else L = 10; }
    // "rotation indices crossing 9->10, 99->100": a long run of rotations on one calendar day (every write rotates)
    const bool longRun = (prop == "C06" && chance(5)) || ((prop == "C05" || prop == "C09") && chance(2));
    if (longRun) { L = 1; if (N == 1 || N > 4) N = pick(2, 4); startup = false; }
    cfg["L"] = L;
    cfg["N"] = N;
    cfg["startup"] = startup;
    cfg["daily"] = daily;
    cfg["compress"] = compress;
    cfg["name"] = QString::fromUtf8(kNames[pick(0, kNameCount - 1)]);
    static const int grans[] = { 0, 0, 1, 1000, 2000 };
    cfg["gran"] = grans[pick(0, 4)];
    const std::string tz = kZones[pick(0, 10)];
    cfg["tz"] = QString::fromStdString(tz);
    setZone(tz);
    const long long day0 = kEpoch0 + kStartDays[pick(0, 10)] * kDayMs;
    long long start = day0 + (long long)pick(0, 86399) * 1000 + pick(0, 999);
    if (chance(20)) { start = day0 + 43200000; start += msToNextLocalMidnight(start) - pick(1, 3000); } // just before (local) midnight
    if (longRun) { start = day0 + 43200000; start += msToNextLocalMidnight(start) + 3600000; } // early in the (local) day: the whole run stays on one date
    cfg["start"] = QString::number(start);

    QJsonObject c;
    c["cfg"] = cfg;
    QJsonArray ops;
    int n = 1 + sized(0, 59);
    if (longRun) n = pick(104, 135);
    long long now = start;
    int widx = 0;
    const bool big = prop == "C08";
    for (int i = 0; i < n; i++) {
        QJsonObject o;
        int k = pick(0, 99);
        const bool c06 = prop == "C06";
        int wShare = c06 ? 62 : 55, advShare = c06 ? 12 : 18, restartShare = c06 ? 10 : 12, flushShare = 3;
        if (longRun) { wShare = 96; advShare = 0; restartShare = 3; flushShare = 0; }
        if (k < wShare) {
            if ((big && chance(12)) || (!big && compress && prop == "C05" && chance(3))) { // C05 too: records inside compressed files beyond the 8 KiB CRC buffer
                o["o"] = "big";
                o["cls"] = pick(0, 3);
                static const int lens[] = { 8191, 8192, 8193, 65535, 65536, 65537, 20000, 131073, 262145 };
                // "several MiB": beyond 1 MiB (a block size a streaming rewrite would plausibly pick), 3 MiB, 4 MiB + 1
                static const int huge[] = { 1048577, 1048576 + 65536, 3 * 1048576 + 17, 4 * 1048576 + 1 };
                const bool thorough = std::string(envOr("VERIF_TIER", "quick")) == "thorough";
                if (chance(thorough ? 20 : 7))
                    o["len"] = huge[pick(0, thorough ? 3 : 1)];
                else
                    o["len"] = lens[pick(0, 8)] + pick(-1, 1);
                o["seed"] = pick(1, 1000000);
            } else {
                int len, r = pick(0, 9);
                if (L > 0 && r < 5) len = std::max(0, L - 1 + pick(-3, 2));  // around the limit (the newline takes one byte)
                else if (r < 6) len = 0;
                else if (r < 7 && L > 0) len = L + pick(1, 20);               // over-limit record
                else len = pick(1, 40);
                o["o"] = "w";
                o["text"] = strToJson(uniqueText(widx, len, pick(0, 8)));
                o["flush"] = true; // every write is observed: the retention/loss bookkeeping needs the file state after each one
            }
            widx++;
        } else if (k < wShare + advShare) {
            long long d;
            int r = pick(0, 9);
            int dayBias = prop == "C09" ? 5 : 3;
            if (r < 10 - dayBias - 2) d = pick(2, 5000);
            else if (r < 10 - 2) { d = msToNextLocalMidnight(now) + pick(-3, 3000); if (d < 2) d = 2; } // to around (local) midnight
            else if (r < 10 - 1 && tz != "UTC" && chance(50)) { d = kDayMs - now % kDayMs + pick(-3, 3000); if (d < 2) d = 2; } // to around UTC midnight: no day change for the user
            else d = (long long)pick(1, 40) * kDayMs + pick(0, 5000);
            o["o"] = "adv";
            o["ms"] = QString::number(d);
            now += d;
        } else if (k < wShare + advShare + restartShare) {
            o["o"] = "restart";
        } else if (k < wShare + advShare + restartShare + flushShare) {
            o["o"] = "flush";
        } else if (compress && chance(30)) {
            o["o"] = "twin"; // leftover of an interrupted compression: the newest rotated generation exists plain AND compressed
        } else {
            o["o"] = "plant";
            o["which"] = pick(0, 11);
        }
        ops.append(o);
        now += 2;
    }
    c["ops"] = ops;
    return c;
}

QString expandBig(int cls, int len, int seed)
{
    // deterministic content of exactly `len` UTF-8 bytes
    QString s;
    s.reserve(len);
    uint64_t x = uint64_t(seed) * 0x9E3779B97F4A7C15ULL + 1;
    auto next = [&] { x ^= x << 13; x ^= x >> 7; x ^= x << 17; return x; };
    int bytes = 0;
    while (bytes < len) {
        if (cls == 0) { s += QChar('a'); bytes++; }                                                   // highly compressible
        else if (cls == 1) { s += QChar(ushort(0x21 + next() % 94)); bytes++; }                       // random printable
        else if (cls == 2) {                                                                          // binary looking
            uint64_t v = next() % 255 + 1;
            if (v >= 0x80) { if (len - bytes < 2) { s += QChar('z'); bytes++; } else { s += QChar(ushort(v)); bytes += 2; } }
            else { s += QChar(ushort(v)); bytes++; }
        } else { s += QChar((next() % 3) ? '\n' : 'x'); bytes++; }                                      // mostly empty lines
    }
    return s;
}

// ------------------------------------------------------------------------------ C08: order of "compressed complete" and "original removed"
// Called by the shim right before any unlink() executes. When the file about to disappear is a rotated plain file of the sink under
// test and a compressed sibling exists, that sibling must ALREADY be a complete gzip member of exactly the same bytes ("the
// uncompressed file disappears only once the compressed one is complete").
std::string g_unlinkViolation;
const rotmodel::NameScheme *g_hookScheme = nullptr;
long g_unlinkChecked = 0;
void onUnlink(const char *path)
{
    if (!g_hookScheme || !path || !g_unlinkViolation.empty()) return;
    std::string p(path);
    size_t slash = p.rfind('/');
    std::string name = slash == std::string::npos ? p : p.substr(slash + 1);
    std::string date;
    long long idx;
    bool gz;
    if (!g_hookScheme->parse(name, &date, &idx, &gz) || gz) return;
    std::string rawGz, plain;
    if (!rotmodel::readWhole(p + ".gz", rawGz)) return; // no compressed sibling: retention removing a plain file
    if (!rotmodel::readWhole(p, plain)) return;
    g_unlinkChecked++;
    std::string inflated, err;
    if (!rotmodel::gunzipStrict(rawGz, inflated, err))
        g_unlinkViolation = "'" + name + "' is being removed while '" + name + ".gz' (" + std::to_string(rawGz.size()) + " bytes on disk) is not yet a complete gzip stream: " + err;
    else if (inflated != plain)
        g_unlinkViolation = "'" + name + "' is being removed while '" + name + ".gz' does not hold its content";
}

// ------------------------------------------------------------------------------ the model
struct Rec
{
    std::string bytes; // record + "\n"
    std::string day;   // day of the message in the process' time zone
    std::string dayU;  // ... and in UTC
};

struct Violation
{
    std::string tags; // e.g. "C05" or "C05,C08"
    std::string what;
};

struct World
{
    std::string dir, fileName;
    int L, N;
    bool startup, daily, compress;
    long long gran;
    NameScheme scheme;
    std::vector<Rec> recs;
    std::vector<long long> off; // off[i] = byte offset of record i; off.back() = total
    std::string all;
    std::vector<std::pair<long long, long long>> prevRanges, gone;
    std::map<std::string, uint64_t> seenKeys;         // "date.index" -> content hash
    std::map<std::string, long long> maxIndexForDate;
    std::set<std::string> prevKeys;
    std::map<std::string, std::string> planted;        // name -> content
    std::set<std::string> twinKeys;                    // "date.index" of generations the harness duplicated (plain + .gz)
    bool countSuspended = false;                       // a twin was planted and the sink has not rotated since
    int twinsPlanted = 0, twinsSeenByRetention = 0;
    // statistics
    int rotations = 0, removals = 0, restarts = 0, dayChangesWithData = 0, ambiguous = 0, gzFiles = 0, maxIndex = 0;
    bool boundaryHit = false, multiByte = false, tieRotations = false, restartAfterDayChange = false, removalBeforeLaterRotationSameDate = false;
    bool sawCompressedBig1M = false;
    bool sawCompressedBig8k = false, sawCompressedBig64k = false, incompressible = false, emptyLines = false, overLimitRecord = false;
    std::string lastWriteDay;
    long long lastRotationStamp = -1;
    // "calendar day": the property does not say in which zone. A sink that keeps LOCAL days apart and one that keeps UTC days apart both
    // satisfy it, as long as it is the same reading for the whole history (a name dated by one clock over records split by the other is
    // neither). Both readings start alive; a file that contradicts one kills it for good; C09 is violated when none is left.
    bool localAlive = true, utcAlive = true;
    bool zoneMatters = false; // some record's local and UTC day differ

    World(const std::string &d, const std::string &fn) : dir(d), fileName(fn), scheme(fn) { off.push_back(0); }

    void addRecord(const QString &text, long long nowMs)
    {
        Rec r;
        QByteArray u = text.toUtf8();
        r.bytes.assign(u.constData(), size_t(u.size()));
        r.bytes.push_back('\n');
        r.day = dayOf(nowMs);
        r.dayU = dayUtc(nowMs);
        all += r.bytes;
        off.push_back((long long)all.size());
        recs.push_back(r);
    }

    long long boundaryIndex(long long byteOff) const
    {
        auto it = std::lower_bound(off.begin(), off.end(), byteOff);
        if (it == off.end() || *it != byteOff) return -1;
        return it - off.begin();
    }
};

uint64_t hashStr(const std::string &s)
{
    uint64_t h = 1469598103934665603ULL;
    for (unsigned char c : s) { h ^= c; h *= 1099511628211ULL; }
    return h;
}

std::vector<FileSnap> snapshot(World &w)
{
    std::vector<FileSnap> files;
    for (const std::string &n : listDir(w.dir)) {
        FileSnap f;
        f.name = n;
        struct stat st;
        const std::string p = w.dir + "/" + n;
        if (stat(p.c_str(), &st) != 0) continue;
        f.ino = st.st_ino;
        readWhole(p, f.raw);
        if (n == w.fileName) {
            f.active = true;
            f.content = f.raw;
        } else if (w.scheme.parse(n, &f.date, &f.index, &f.gz)) {
            f.rotated = true;
            if (f.gz) {
                f.gzValid = gunzipStrict(f.raw, f.content, f.gzError);
                if (!f.gzValid) f.content.clear();
            } else {
                f.content = f.raw;
            }
        }
        files.push_back(std::move(f));
    }
    return files;
}

// The kernel stamps files with the real clock. Every file it touched since the last call (mtime in
// the real present) gets the (granular) virtual time of the operation instead - what a kernel
// running on the virtual clock with that timestamp granularity would have recorded.
void stamp(World &w, const std::vector<FileSnap> &files, long long opMs)
{
    long long t = opMs;
    if (w.gran > 0) t -= t % w.gran;
    for (auto &f : files) {
        struct stat st;
        const std::string p = w.dir + "/" + f.name;
        if (stat(p.c_str(), &st) != 0 || st.st_mtime < kRealClockFloor) continue;
        struct timespec ts[2];
        ts[0].tv_sec = t / 1000;
        ts[0].tv_nsec = (t % 1000) * 1000000;
        ts[1] = ts[0];
        utimensat(AT_FDCWD, p.c_str(), ts, 0);
    }
}

std::string rangeStr(long long a, long long b) { return "[" + std::to_string(a) + "," + std::to_string(b) + ")"; }

// all invariants; returns the first violation found (tags say whose it is)
bool check(World &w, std::vector<FileSnap> &files, bool afterWrite, Violation &v)
{
    std::vector<FileSnap *> rot;
    FileSnap *active = nullptr;
    for (auto &f : files) {
        if (f.active) active = &f;
        else if (f.rotated) rot.push_back(&f);
    }
    std::sort(rot.begin(), rot.end(), [](FileSnap *x, FileSnap *y) {
        if (x->date != y->date) return x->date < y->date;
        if (x->index != y->index) return x->index < y->index;
        return x->gz < y->gz;
    });
    const long long total = (long long)w.recs.size();
    // harness-made twins: one generation, two files with the same records. Both count as log files (C06), one of them stands for
    // the generation everywhere else.
    int twinExtras = 0;
    for (size_t i = 0; i + 1 < rot.size();) {
        FileSnap *x = rot[i], *y = rot[i + 1];
        if (x->date == y->date && x->index == y->index && w.twinKeys.count(x->date + "." + std::to_string(x->index)) && (!y->gz || y->gzValid) && x->content == y->content) {
            rot.erase(rot.begin() + long(i) + 1);
            twinExtras++;
        } else {
            i++;
        }
    }
    bool newKeyAppeared = false;
    for (auto *f : rot) if (!w.seenKeys.count(f->date + "." + std::to_string(f->index))) newKeyAppeared = true;
    if (w.countSuspended && newKeyAppeared) { w.countSuspended = false; w.twinsSeenByRetention++; }

    // ---- C06: planted look-alikes are never touched ----
    for (auto &pl : w.planted) {
        bool found = false;
        for (auto &f : files)
            if (f.name == pl.first) { found = true; if (f.raw != pl.second) { v = { "C06", "foreign file '" + pl.first + "' was modified" }; return false; } }
        if (!found) { v = { "C06", "foreign file '" + pl.first + "' (not in this sink's rotated-name scheme) was deleted" }; return false; }
    }

    // ---- C08: every *.gz is one complete, valid gzip member ----
    for (auto *f : rot)
        if (f->gz && !f->gzValid) { v = { "C05,C08", "compressed file '" + f->name + "' is not a valid gzip stream (its records cannot be read back): " + f->gzError }; return false; }

    // ---- resolve record ranges, newest to oldest (C05: whole consecutive records, nothing duplicated or reordered) ----
    long long nextStart = total;
    // does `content` occur in the written stream only at positions that cut a record in two? (then a record does not lie within one file: C07 as well)
    auto cutsARecord = [&](const std::string &content) {
        if (content.empty()) return false;
        bool any = false;
        for (size_t pos = w.all.find(content); pos != std::string::npos; pos = w.all.find(content, pos + 1)) {
            any = true;
            if (w.boundaryIndex((long long)pos) >= 0 && w.boundaryIndex((long long)(pos + content.size())) >= 0) return false; // an aligned occurrence exists: misplaced, not split
        }
        return any;
    };
    if (active) {
        const long long startByte = (long long)w.all.size() - (long long)active->content.size();
        long long a = startByte >= 0 ? w.boundaryIndex(startByte) : -1;
        if (a < 0 || w.all.compare(size_t(startByte), std::string::npos, active->content) != 0) {
            v = { cutsARecord(active->content) ? "C05,C07" : "C05", "the active file (" + std::to_string(active->content.size()) + " bytes) is not the tail of the written stream at a record boundary (records written: " + std::to_string(total) + ")" };
            return false;
        }
        active->a = a;
        active->b = total;
        nextStart = a;
    }
    // (the record just written need not be in the ACTIVE file - the property only fixes the concatenation;
    //  that it is in some file is established by the coverage test below)
    for (int i = int(rot.size()) - 1; i >= 0; i--) {
        FileSnap *f = rot[size_t(i)];
        const long long sz = (long long)f->content.size();
        if (sz == 0) { f->a = f->b = nextStart; continue; }
        long long found = -1;
        int matches = 0;
        for (long long e = nextStart; e >= 1; e--) {
            const long long endByte = w.off[size_t(e)], startByte = endByte - sz;
            if (startByte < 0) break;
            const long long a = w.boundaryIndex(startByte);
            if (a < 0) continue;
            if (w.all.compare(size_t(startByte), size_t(sz), f->content) == 0) {
                if (found < 0) { found = e; f->a = a; f->b = e; }
                matches++;
                if (matches > 1) break;
            }
        }
        if (matches > 1) w.ambiguous++;
        if (found < 0) {
            std::string tags = f->gz ? "C05,C08" : "C05";
            if (cutsARecord(f->content)) tags += ",C07";
            v = { tags, "rotated file '" + f->name + "' (" + std::to_string(sz) + " bytes) is not a run of whole consecutive records of the written stream placed before the files that follow it (duplicated, reordered, split or foreign bytes)" };
            return false;
        }
        nextStart = f->a;
    }

    // ---- C05: records only disappear as whole files, and only when retention may delete ----
    std::vector<std::pair<long long, long long>> cur;
    for (auto *f : rot) if (f->b > f->a) cur.push_back({ f->a, f->b });
    if (active && active->b > active->a) cur.push_back({ active->a, active->b });
    for (auto &pr : w.prevRanges) {
        bool contained = false, intersects = false;
        for (auto &c : cur) {
            if (c.first <= pr.first && pr.second <= c.second) contained = true;
            else if (c.first < pr.second && pr.first < c.second) intersects = true;
        }
        if (contained) continue;
        if (intersects) { v = { "C05", "records " + rangeStr(pr.first, pr.second) + " shared one file before this operation and are now only partly present" }; return false; }
        if (w.N <= 0 || w.N == 1) { v = { "C05,C06", "records " + rangeStr(pr.first, pr.second) + " disappeared although nothing may be deleted with a file-count limit of " + std::to_string(w.N) }; return false; }
        w.gone.push_back(pr);
        w.removals++;
    }
    {   // every record is either present or went away with a whole file
        std::vector<char> covered(size_t(total), 0);
        for (auto &c : cur) for (long long i = c.first; i < c.second; i++) covered[size_t(i)] = 1;
        for (auto &g : w.gone) for (long long i = g.first; i < g.second; i++) covered[size_t(i)] = 1;
        for (long long i = 0; i < total; i++)
            if (!covered[size_t(i)]) { v = { "C05", "record #" + std::to_string(i) + " is in no file and was not removed with a whole file" }; return false; }
    }

    // ---- C06: count limit, survivors = most recent contiguous stretch ----
    if (w.N == 1 && !rot.empty()) { v = { "C06", "rotated file '" + rot[0]->name + "' exists although the file-count limit is 1" }; return false; }
    if (w.N >= 2 && afterWrite && !w.countSuspended) {
        const int count = int(rot.size()) + twinExtras + (active ? 1 : 0);
        if (count > w.N) { v = { "C06", std::to_string(count) + " log files exist after a write, limit is " + std::to_string(w.N) }; return false; }
    }
    {
        long long expectStart = -1;
        std::vector<std::pair<long long, long long>> sorted = cur;
        std::sort(sorted.begin(), sorted.end());
        for (auto &c : sorted) {
            if (expectStart >= 0 && c.first != expectStart) {
                v = { "C06", "surviving records are not one contiguous most-recent stretch: records " + rangeStr(expectStart, c.first) + " are gone while older ones survive (a file that was not the oldest has been removed)" };
                return false;
            }
            expectStart = c.second;
        }
    }
    std::set<std::string> keys;
    for (auto *f : rot) keys.insert(f->date + "." + std::to_string(f->index));
    if (w.N <= 0)
        for (auto &k : w.prevKeys)
            if (!keys.count(k)) { v = { "C06", "rotated file " + k + " vanished although nothing may be deleted with a file-count limit of " + std::to_string(w.N) }; return false; }

    // ---- C07: size limit ----
    if (w.L > 0 && w.N != 1) {
        auto sizeCheck = [&](FileSnap *f) -> bool {
            if (f->b <= f->a) return true;
            const long long bytes = w.off[size_t(f->b)] - w.off[size_t(f->a)];
            if (bytes > w.L && f->b - f->a != 1) {
                v = { "C07", "file '" + f->name + "' holds " + std::to_string(bytes) + " bytes in " + std::to_string(f->b - f->a) + " records, limit is " + std::to_string(w.L) };
                return false;
            }
            return true;
        };
        for (auto *f : rot) if (!sizeCheck(f)) return false;
        if (active && !sizeCheck(active)) return false;
    }

    // ---- C09: days apart, names dated, names never reused, indices increase ----
    if (w.daily && w.N != 1) {
        // reading: 0 = local days, 1 = UTC days; returns "" when the file agrees with the reading
        auto dayCheck = [&](FileSnap *f, int reading) -> std::string {
            if (f->b <= f->a) return "";
            std::set<std::string> days;
            for (long long i = f->a; i < f->b; i++) days.insert(reading == 0 ? w.recs[size_t(i)].day : w.recs[size_t(i)].dayU);
            if (days.size() > 1) return "file '" + f->name + "' holds records of " + *days.begin() + " and " + *days.rbegin();
            if (f->rotated && *days.begin() != f->date) return "rotated file '" + f->name + "' holds records written on " + *days.begin();
            return "";
        };
        std::string whyLocal, whyUtc;
        for (int reading = 0; reading < 2; reading++) {
            std::string &why = reading == 0 ? whyLocal : whyUtc;
            for (auto *f : rot) if (why.empty()) why = dayCheck(f, reading);
            if (active && why.empty()) why = dayCheck(active, reading);
        }
        if (!whyLocal.empty()) w.localAlive = false;
        if (!whyUtc.empty()) w.utcAlive = false;
        if (!w.localAlive && !w.utcAlive) {
            std::string what = !whyLocal.empty() ? whyLocal : whyUtc;
            if (whyLocal != whyUtc) what += " (days in the zone " + std::string(envOr("TZ", "UTC")) + "; the history fits UTC days no better" + (whyUtc.empty() ? ": an earlier file contradicted them" : ": " + whyUtc) + ")";
            v = { "C09", what };
            return false;
        }
    }
    for (auto *f : rot) {
        const std::string key = f->date + "." + std::to_string(f->index);
        const uint64_t h = hashStr(f->content);
        auto it = w.seenKeys.find(key);
        if (it == w.seenKeys.end()) {
            auto mx = w.maxIndexForDate.find(f->date);
            if (mx != w.maxIndexForDate.end() && f->index <= mx->second) {
                v = { "C09", "new rotated file '" + f->name + "' reuses or goes below index " + std::to_string(mx->second) + " already used for " + f->date };
                return false;
            }
            if (mx != w.maxIndexForDate.end() && !w.gone.empty()) w.removalBeforeLaterRotationSameDate = true;
            w.seenKeys[key] = h;
            w.rotations++;
            w.maxIndex = std::max<long long>(w.maxIndex, f->index);
        } else if (it->second != h) {
            v = { "C09", "rotated name '" + key + "' now has different content than when it was first seen (overwritten or reused)" };
            return false;
        }
    }
    for (auto *f : rot) {
        auto &mx = w.maxIndexForDate[f->date];
        mx = std::max(mx, f->index);
        if (f->gz) {
            w.gzFiles++;
            if (f->content.size() > 8192) w.sawCompressedBig8k = true;
            if (f->content.size() > 65536) w.sawCompressedBig64k = true;
            if (f->content.size() > 1048576) w.sawCompressedBig1M = true;
        }
    }
    w.prevRanges = cur;
    w.prevKeys = keys;
    return true;
}

const char *plantName(const World &w, int which, std::string &out)
{
    const std::string d = "2015-05-15";
    const std::string &b = w.scheme.base, &s = w.scheme.suffix;
    const std::string dot = s.empty() ? "" : "." + s;
    switch (which) {
    case 0: out = b + "." + d + ".1" + dot + ".bak"; break;
    case 1: out = "x" + b + "." + d + ".1" + dot; break;
    case 2: out = b + "2." + d + ".1" + dot; break;
    case 3: out = b + "." + d + dot; break;                 // no index
    case 4: out = b + ".20240515.1" + dot; break;           // date without dashes
    case 5: out = b + "X" + d + ".1" + dot; break;          // 'X' where the dot belongs
    case 6: out = b + "." + d + ".1.txt2"; break;           // other suffix
    case 7: out = b + "." + d + ".1" + dot + ".gz.tmp"; break;
    case 8: out = "other." + d + ".1" + dot; break;         // another log's rotated file
    case 9: {                                                // what an unescaped base name would match
        std::string m;
        for (char ch : b) {
            if (ch == '+') m += 'a'; else if (ch == '.') m += 'X'; else if (ch == '(' || ch == ')') m += '_';
            else if (ch == '[' || ch == ']' || ch == '{' || ch == '}' || ch == '\\') continue;    // "srv[1]" as a pattern matches "srv1"
            else if (ch == '*' || ch == '?') m += "Q";                                                // "a*b?" as a glob matches "aQbQ"
            else m += ch;
        }
        if (m == b) m = b + b;
        out = m + "." + d + ".1" + dot;
        break;
    }
    case 10: out = b + "." + d + ".x1" + dot; break;        // non-numeric index
    default: out = b + "." + d + ".1" + dot + "x"; break;   // suffix with a tail
    }
    return out.c_str();
}

std::string runParallel(const QJsonObject &c);

std::string run(const QJsonObject &c)
{
    g_prop = verif::prop().empty() ? "ALL" : verif::prop();
    if (c.contains("par")) return runParallel(c);
    const QJsonObject cfg = c["cfg"].toObject();
    const std::string scratch = envOr("VERIF_SCRATCH", "/dev/shm");
    const std::string dir = scratch + "/rot";
    QDir(QString::fromStdString(dir)).removeRecursively();
    mkdir(dir.c_str(), 0755);
    World w(dir, cfg["name"].toString().toStdString());
    w.L = cfg["L"].toInt();
    w.N = cfg["N"].toInt();
    w.startup = cfg["startup"].toBool();
    w.daily = cfg["daily"].toBool();
    w.compress = cfg["compress"].toBool();
    w.gran = cfg["gran"].toInt();
    long long now = cfg["start"].toString().toLongLong();
    const std::string tz = cfg.contains("tz") ? cfg["tz"].toString().toStdString() : std::string("UTC");
    setZone(tz);
    verif_clock_enable(true);
    verif_clock_set(now);

    RotatingFileSink::Options opt;
    if (w.startup) opt |= RotatingFileSink::RotationOnStartup;
    if (w.daily) opt |= RotatingFileSink::RotationDaily;
    if (w.compress) opt |= RotatingFileSink::Compression;
    const QString path = QString::fromStdString(dir + "/" + w.fileName);
    auto mk = [&] { return new RotatingFileSink(path, w.L, w.N, opt); };
    g_unlinkViolation.clear();
    g_hookScheme = &w.scheme;
    verif_shim_on_unlink(onUnlink);
    RotatingFileSink *sink = mk();
    QMessageLogContext ctx("f.cpp", 1, "f", "c");

    Violation viol;
    bool failed = false, otherProp = false;
    bool pendingUnflushed = false, dayChangedSinceWrite = false;
    int opIndex = 0;
    std::string hist;
    for (auto ov : c["ops"].toArray()) {
        const QJsonObject o = ov.toObject();
        const QString k = o["o"].toString();
        opIndex++;
        bool observed = true, wasWrite = false;
        const long long opMs = now;
        if (k == "w" || k == "big") {
            QString text = k == "w" ? strFromJson(o["text"]) : expandBig(o["cls"].toInt(), o["len"].toInt(), o["seed"].toInt());
            const int bytes = text.toUtf8().size() + 1;
            if (k == "big") { if (o["cls"].toInt() == 1 || o["cls"].toInt() == 2) w.incompressible = true; if (o["cls"].toInt() == 3) w.emptyLines = true; }
            if (text.toUtf8().size() != text.size()) w.multiByte = true;
            if (w.L > 0 && bytes > w.L) w.overLimitRecord = true;
            if (w.L > 0 && !w.prevRanges.empty()) {
                // distance between the room left in the active file and this record
                const auto &last = w.prevRanges.back();
                const long long used = w.off[size_t(last.second)] - w.off[size_t(last.first)];
                const long long room = w.L - used;
                if (bytes - room >= -2 && bytes - room <= 2) w.boundaryHit = true;
            }
            if (!w.lastWriteDay.empty() && w.lastWriteDay != dayOf(now)) { w.dayChangesWithData++; dayChangedSinceWrite = true; }
            w.lastWriteDay = dayOf(now);
            LogMessage m(QtInfoMsg, ctx, text);
            sink->send(m);
            w.addRecord(text, now);
            if (w.recs.back().day != w.recs.back().dayU) w.zoneMatters = true;
            const bool flush = true;
            if (flush) { sink->flush(); pendingUnflushed = false; wasWrite = true; }
            else { pendingUnflushed = true; observed = false; }
        } else if (k == "adv") {
            now += o["ms"].toString().toLongLong();
            verif_clock_set(now);
            continue;
        } else if (k == "restart") {
            delete sink;
            pendingUnflushed = false;
            now += 1;
            verif_clock_set(now);
            sink = mk();
            w.restarts++;
            if (dayChangedSinceWrite) w.restartAfterDayChange = true;
        } else if (k == "flush") {
            sink->flush();
            pendingUnflushed = false;
        } else if (k == "twin") {
            // newest rotated generation (by date, index) gets its missing plain / compressed sibling
            std::string bestName, bestDate;
            long long bestIdx = -1;
            bool bestGz = false, hasSibling = false;
            for (const std::string &n : listDir(dir)) {
                std::string d0; long long i0; bool g0;
                if (!w.scheme.parse(n, &d0, &i0, &g0)) continue;
                if (bestName.empty() || d0 > bestDate || (d0 == bestDate && i0 > bestIdx)) { bestName = n; bestDate = d0; bestIdx = i0; bestGz = g0; hasSibling = false; }
                else if (d0 == bestDate && i0 == bestIdx) hasSibling = true;
            }
            if (!w.compress || bestName.empty() || hasSibling) { now += 2; verif_clock_set(now); continue; }
            std::string raw, plain, err;
            readWhole(dir + "/" + bestName, raw);
            std::string sibling, siblingBytes;
            if (bestGz) {
                if (!gunzipStrict(raw, plain, err)) { now += 2; verif_clock_set(now); continue; } // left to the gzip invariant
                sibling = bestName.substr(0, bestName.size() - 3);
                siblingBytes = plain;
            } else {
                sibling = bestName + ".gz";
                z_stream z;
                memset(&z, 0, sizeof z);
                deflateInit2(&z, Z_DEFAULT_COMPRESSION, Z_DEFLATED, 16 + MAX_WBITS, 8, Z_DEFAULT_STRATEGY);
                siblingBytes.resize(deflateBound(&z, uLong(raw.size())) + 64);
                z.next_in = reinterpret_cast<Bytef *>(const_cast<char *>(raw.data()));
                z.avail_in = uInt(raw.size());
                z.next_out = reinterpret_cast<Bytef *>(&siblingBytes[0]);
                z.avail_out = uInt(siblingBytes.size());
                deflate(&z, Z_FINISH);
                siblingBytes.resize(siblingBytes.size() - z.avail_out);
                deflateEnd(&z);
            }
            FILE *f = fopen((dir + "/" + sibling).c_str(), "wb");
            if (f) {
                fwrite(siblingBytes.data(), 1, siblingBytes.size(), f);
                fclose(f);
                w.twinKeys.insert(bestDate + "." + std::to_string(bestIdx));
                w.countSuspended = true;
                w.twinsPlanted++;
            }
            if (pendingUnflushed) observed = false;
        } else if (k == "plant") {
            std::string name;
            plantName(w, o["which"].toInt(), name);
            std::string d0, content = "foreign:" + name + "\n";
            long long i0;
            bool g0;
            if (name != w.fileName && !w.scheme.parse(name, &d0, &i0, &g0) && !w.planted.count(name)) {
                FILE *f = fopen((dir + "/" + name).c_str(), "wb");
                if (f) { fwrite(content.data(), 1, content.size(), f); fclose(f); w.planted[name] = content; }
            }
            if (pendingUnflushed) observed = false;
        } else {
            delete sink;
            verif_shim_on_unlink(nullptr);
            g_hookScheme = nullptr;
            return "bad op in case file";
        }
        if (observed) {
            const int rotBefore = w.rotations;
            std::vector<FileSnap> files = snapshot(w);
            stamp(w, files, opMs);
            bool okNow = check(w, files, wasWrite, viol);
            if (okNow && !g_unlinkViolation.empty()) { viol = { "C08", g_unlinkViolation }; okNow = false; }
            if (!okNow) {
                failed = true;
                bool mine = false;
                for (const char *t : { "C05", "C06", "C07", "C08", "C09" })
                    if (viol.tags.find(t) != std::string::npos && wants(t)) mine = true;
                if (!mine) otherProp = true;
                viol.what = "after op #" + std::to_string(opIndex) + " (" + k.toStdString() + "): " + viol.what;
                break;
            }
            if (w.rotations > rotBefore) {
                long long st = opMs;
                if (w.gran > 0) st -= st % w.gran;
                if (st == w.lastRotationStamp) w.tieRotations = true;
                w.lastRotationStamp = st;
            }
        }
        now += 2;
        verif_clock_set(now);
    }
    delete sink;
    verif_shim_on_unlink(nullptr);
    g_hookScheme = nullptr;
    verif_clock_enable(false);
    QDir(QString::fromStdString(dir)).removeRecursively();

    if (failed && !otherProp)
        return "[" + viol.tags + "] " + viol.what + "  cfg L=" + std::to_string(w.L) + " N=" + std::to_string(w.N) + " startup=" + std::to_string(w.startup)
                + " daily=" + std::to_string(w.daily) + " compress=" + std::to_string(w.compress) + " file=" + w.fileName + " TZ=" + tz;
    if (failed) { count("cases_ended_by_another_propertys_invariant"); }

    // ---- statistics & non-triviality per property ----
    cls("rotations>=2", w.rotations >= 2);
    cls("restart", w.restarts > 0);
    cls("compression", w.compress && w.gzFiles > 0);
    cls("retention_removed_files", w.removals > 0);
    cls("index_crossed_9_to_10", w.maxIndex >= 10);
    cls("index_crossed_99_to_100", w.maxIndex >= 100);
    cls("rotations_within_one_timestamp_tick", w.tieRotations);
    cls("size_boundary_hit", w.boundaryHit);
    cls("multi_byte_record", w.multiByte);
    cls("over_limit_record", w.overLimitRecord);
    cls("day_change_with_data", w.dayChangesWithData > 0);
    cls("restart_after_day_change", w.restartAfterDayChange);
    cls("removal_before_later_rotation_same_date", w.removalBeforeLaterRotationSameDate);
    cls("foreign_files_planted", !w.planted.empty());
    cls("zone_other_than_UTC", tz != "UTC");
    cls("record_whose_local_and_UTC_day_differ", w.zoneMatters);
    cls("daily_and_local_and_UTC_day_differ_and_day_change", w.daily && w.zoneMatters && w.dayChangesWithData > 0);
    cls("interrupted_compression_twin_present_at_a_later_rotation", w.twinsSeenByRetention > 0);
    cls("metachar_file_name", w.fileName != "app.log" && w.fileName != "applog");
    cls("gz_content>8KiB", w.sawCompressedBig8k);
    cls("gz_content>64KiB", w.sawCompressedBig64k);
    cls("ambiguous_range_resolution", w.ambiguous > 0);
    count("rotations", w.rotations);
    count("gz_files_validated", w.gzFiles);
    count("unlink_of_original_checked_against_complete_gz", g_unlinkChecked); g_unlinkChecked = 0;
    cls("gz_content>1MiB", w.sawCompressedBig1M);
    bool nt = false;
    if (g_prop == "C05" || g_prop == "ALL") nt = w.rotations >= 2 && (w.restarts > 0 || (w.compress && w.gzFiles > 0));
    if (g_prop == "C06") nt = w.N >= 2 ? (w.rotations >= w.N + 2 && w.removals > 0) : (w.rotations >= 2);
    if (g_prop == "C07") nt = w.L > 0 && w.boundaryHit && w.rotations >= 1;
    if (g_prop == "C08") nt = w.compress && w.gzFiles > 0 && (w.sawCompressedBig8k || w.multiByte || w.rotations >= 3);
    if (g_prop == "C09") nt = w.daily ? (w.dayChangesWithData > 0 && w.rotations >= 1) : (w.rotations >= 2 && w.restarts > 0);
    noteCase(c, nt && !failed);
    return "";
}

// k sinks, k threads, k directories; every write rotates the previous record into a compressed file (L = 1). The threads start each round
// together (a barrier), so the compressions overlap. Afterwards every directory must satisfy the sequential oracle on its own.
std::string runParallel(const QJsonObject &c)
{
    const QJsonObject par = c["par"].toObject();
    const int threads = par["threads"].toInt(), rounds = par["rounds"].toInt(), len = par["len"].toInt(), clsId = par["cls"].toInt(), seed = par["seed"].toInt();
    const std::string scratch = envOr("VERIF_SCRATCH", "/dev/shm");
    setZone("UTC");
    const long long now = kEpoch0 + 36000000;
    verif_clock_enable(true);
    verif_clock_set(now);
    std::vector<std::string> dirs;
    std::vector<std::vector<QString>> texts{ size_t(threads) };
    texts.resize(size_t(threads));
    for (int t = 0; t < threads; t++) {
        const std::string d = scratch + "/rot-par" + std::to_string(t);
        QDir(QString::fromStdString(d)).removeRecursively();
        mkdir(d.c_str(), 0755);
        dirs.push_back(d);
        for (int r = 0; r < rounds; r++) texts[size_t(t)].push_back(QString("t%1r%2 ").arg(t).arg(r) + expandBig(clsId, len + 13 * t, seed + 97 * t + r));
    }
    {   // warm-up on this thread: whatever the library initialises lazily on first use (the CRC table) is initialised before the threads start
        const std::string d = scratch + "/rot-parwarm";
        QDir(QString::fromStdString(d)).removeRecursively();
        mkdir(d.c_str(), 0755);
        RotatingFileSink warm(QString::fromStdString(d + "/app.log"), 1, -1, RotatingFileSink::Compression);
        QMessageLogContext ctx("f.cpp", 1, "f", "c");
        for (int i = 0; i < 2; i++) { LogMessage m(QtInfoMsg, ctx, QStringLiteral("warm")); warm.send(m); warm.flush(); }
        dirs.push_back(d);
    }
    std::atomic<int> arrived { 0 };
    std::vector<std::thread> th;
    for (int t = 0; t < threads; t++)
        th.emplace_back([&, t] {
            RotatingFileSink sink(QString::fromStdString(dirs[size_t(t)] + "/app.log"), 1, -1, RotatingFileSink::Compression);
            QMessageLogContext ctx("f.cpp", 1, "f", "c");
            for (int r = 0; r < rounds; r++) {
                arrived.fetch_add(1);
                while (arrived.load() < threads * (r + 1)) std::this_thread::yield(); // all sinks rotate at the same moment
                LogMessage m(QtInfoMsg, ctx, texts[size_t(t)][size_t(r)]);
                sink.send(m);
                sink.flush();
            }
        });
    for (auto &x : th) x.join();
    std::string failure;
    long gz = 0;
    for (int t = 0; t < threads && failure.empty(); t++) {
        World w(dirs[size_t(t)], "app.log");
        w.L = 1; w.N = -1; w.startup = false; w.daily = false; w.compress = true; w.gran = 0;
        for (auto &x : texts[size_t(t)]) w.addRecord(x, now);
        std::vector<FileSnap> files = snapshot(w);
        Violation v;
        if (!check(w, files, true, v)) {
            bool mine = false;
            for (const char *tag : { "C05", "C08" }) if (v.tags.find(tag) != std::string::npos && wants(tag)) mine = true;
            if (mine) failure = "[" + v.tags + "] " + std::to_string(threads) + " compressing sinks (own log, own directory, own thread) rotating at the same time, sink #" + std::to_string(t) + ": " + v.what;
        }
        gz += w.gzFiles;
        if (failure.empty() && w.gzFiles != rounds - 1) failure = "[C05,C08] parallel sinks: sink #" + std::to_string(t) + " left " + std::to_string(w.gzFiles) + " compressed files, " + std::to_string(rounds - 1) + " rotations were due";
    }
    for (auto &d : dirs) QDir(QString::fromStdString(d)).removeRecursively();
    verif_clock_enable(false);
    if (!failure.empty()) return failure;
    cls("parallel_sinks_case");
    count("gz_files_validated", gz);
    count("gz_files_written_by_sinks_compressing_concurrently", gz);
    noteCase(c, true);
    return "";
}

} // namespace

int main()
{
    setlocale(LC_ALL, "");
    return harnessMain("rotating file sink: C05 C06 C07 C08 C09", generate, run);
}
