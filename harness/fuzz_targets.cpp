// libFuzzer targets for C14 (robustness of formatters and filters against arbitrary input) and the
// coverage-guided differential campaigns of C12 / C15 (thorough tier).
//
// One source, the target is chosen with -DFUZZ_<NAME>:
//   FUZZ_PATTERN     pattern + message + file + function + category + attributes + type -> PatternFormatter
//   FUZZ_FUNC        arbitrary bytes as the function signature through %{func} / %{func:spec} / %{function}
//   FUZZ_FORMATTERS  Pretty / JSON / Sentry with arbitrary bytes everywhere; JSON + Sentry output must parse (minijson)
//   FUZZ_CATFILTER   rule string <= 256 bytes + probed category <= 256 bytes x 5 types
//   FUZZ_REGEXP      expression from a fixed menu + arbitrary message
//   FUZZ_CATDIFF     (C15) token-decoded rule lists + categories, verdict vs refglob.h
//   FUZZ_PATDIFF     (C12) token-decoded patterns + messages, output vs refpattern.h
// Every iteration builds fresh formatter / filter objects: nothing leaks between iterations.
// Oracles inside the target: sanitizers (ASan+UBSan, -fno-sanitize-recover), asserts of the library,
// determinism (same formatter, same message, twice -> same text), JSON validity, reference agreement.
#include <fuzzer/FuzzedDataProvider.h>

#include <QByteArray>
#include <QString>
#include <QVariant>

#include <cstdio>
#include <cstdlib>
#include <string>

#include <unistd.h>

#include "qtlogger/logmessage.h"
#include "qtlogger/filters/categoryfilter.h"
#include "qtlogger/filters/duplicatefilter.h"
#include "qtlogger/filters/regexpfilter.h"
#include "qtlogger/formatters/jsonformatter.h"
#include "qtlogger/formatters/patternformatter.h"
#include "qtlogger/formatters/prettyformatter.h"
#include "qtlogger/formatters/sentryformatter.h"

#include "common/minijson.h"
#if defined(FUZZ_CATDIFF)
#include "common/refglob.h"
#endif
#if defined(FUZZ_PATDIFF)
#include "common/refpattern.h"
#endif

using namespace QtLogger;

namespace {

long g_counters[8];
const char *g_counterNames[8] = { "iterations", "skipped_wide_width", "json_outputs_parsed", "raw_utf16_mode",
                                  "oracle_compared", "oracle_skipped", "nondefault_verdicts", "bounded_compared" };
void dumpCounters()
{
    const char *p0 = getenv("VERIF_FUZZ_STATS");
    if (!p0 || !*p0 || g_counters[0] == 0)
        return;
    // one file per process: libFuzzer's -fork mode runs the target in child processes
    const std::string path = std::string(p0) + "." + std::to_string(long(getpid()));
    const char *p = path.c_str();
    if (FILE *f = fopen(p, "w")) {
        fprintf(f, "{");
        for (int i = 0; i < 8; i++)
            fprintf(f, "%s\"%s\": %ld", i ? ", " : "", g_counterNames[i], g_counters[i]);
        fprintf(f, "}\n");
        fclose(f);
    }
}
struct Init
{
    Init() { atexit(dumpCounters); }
} g_init;

[[noreturn]] void violation(const char *what, const QString &a = QString(), const QString &b = QString())
{
    fprintf(stderr, "ORACLE-VIOLATION: %s\n  a=%s\n  b=%s\n", what, a.toUtf8().toPercentEncoding(" {}%:,<>^!?=;.*").constData(),
            b.toUtf8().toPercentEncoding(" {}%:,<>^!?=;.*").constData());
    dumpCounters();
    __builtin_trap();
}

const QtMsgType kTypes[5] = { QtDebugMsg, QtInfoMsg, QtWarningMsg, QtCriticalMsg, QtFatalMsg };

// length-prefixed chunk so that the fuzzer can grow one field without shifting the others' meaning
std::string chunk(FuzzedDataProvider &fdp, size_t maxLen)
{
    size_t n = fdp.ConsumeIntegralInRange<size_t>(0, maxLen);
    return fdp.ConsumeBytesAsString(n);
}

QString text(FuzzedDataProvider &fdp, const std::string &bytes, int mode)
{
    switch (mode) {
    case 0:
        return QString::fromUtf8(bytes.data(), int(bytes.size())); // invalid sequences become U+FFFD: well-formed
    case 1:
        return QString::fromLatin1(bytes.data(), int(bytes.size()));
    default: { // raw UTF-16 units, lone surrogates possible: memory safety and termination only
        QString s;
        for (size_t i = 0; i + 1 < bytes.size(); i += 2)
            s.append(QChar(ushort((unsigned char)bytes[i] | ((unsigned char)bytes[i + 1] << 8))));
        return s;
    }
    }
    (void)fdp;
}

bool hasLongDigitRun(const QString &s)
{
    int run = 0;
    for (QChar c : s) {
        run = (c.unicode() >= '0' && c.unicode() <= '9') ? run + 1 : 0; // QChar::isDigit would also count other scripts; toInt() only reads ASCII... be conservative:
        if (c.isDigit() && !(c.unicode() >= '0' && c.unicode() <= '9'))
            run = run; // non-ASCII digits do not extend an ASCII run
        if (run >= 6)
            return true;
    }
    return false;
}

QVariant variantFrom(FuzzedDataProvider &fdp, int mode)
{
    switch (fdp.ConsumeIntegralInRange<int>(0, 5)) {
    case 0: return QVariant(text(fdp, chunk(fdp, 64), mode));
    case 1: return QVariant(fdp.ConsumeIntegral<int>());
    case 2: return QVariant(fdp.ConsumeBool());
    case 3: return QVariant(fdp.ConsumeFloatingPoint<double>());
    case 4: return QVariant(qlonglong(fdp.ConsumeIntegral<int64_t>()));
    default: {
        QVariantList l;
        l << text(fdp, chunk(fdp, 16), mode) << fdp.ConsumeIntegral<int>();
        return l;
    }
    }
}

void mustParse(const char *who, const QString &out)
{
    std::string u = out.toUtf8().toStdString();
    minijson::Value v;
    minijson::Parser p(u);
    if (!p.parse(v))
        violation(who, QString::fromStdString(p.error()), out.left(400));
    if (v.type != minijson::Value::Object)
        violation(who, "not an object", out.left(400));
    g_counters[2]++;
}

} // namespace

extern "C" int LLVMFuzzerTestOneInput(const uint8_t *data, size_t size)
{
    g_counters[0]++;
    FuzzedDataProvider fdp(data, size);

#if defined(FUZZ_PATTERN) || defined(FUZZ_FUNC) || defined(FUZZ_FORMATTERS)
    const int typeIdx = fdp.ConsumeIntegralInRange<int>(0, 4);
    const int mode = fdp.ConsumeIntegralInRange<int>(0, 9) < 7 ? 0 : (fdp.ConsumeBool() ? 1 : 2);
    const int line = fdp.ConsumeIntegral<int>();
    const bool nullFile = fdp.ConsumeIntegralInRange<int>(0, 15) == 0, nullFunc = fdp.ConsumeIntegralInRange<int>(0, 15) == 0,
               nullCat = fdp.ConsumeIntegralInRange<int>(0, 15) == 0;
    const int nattr = fdp.ConsumeIntegralInRange<int>(0, 3);
    if (mode == 2)
        g_counters[3]++;
#endif

#if defined(FUZZ_PATTERN)
    std::string file = chunk(fdp, 256), func = chunk(fdp, 512), cat = chunk(fdp, 128);
    QVariantHash attrs;
    for (int i = 0; i < nattr; i++) {
        QString name = text(fdp, chunk(fdp, 12), 0);
        attrs.insert(name, variantFrom(fdp, mode));
    }
    QString msg = text(fdp, chunk(fdp, 4096), mode);
    QString pattern = text(fdp, fdp.ConsumeRemainingBytesAsString(), mode == 2 ? 2 : mode);
    if (hasLongDigitRun(pattern)) { // a width of 10^6+ is a resource request of the pattern, not memory corruption
        g_counters[1]++;
        return 0;
    }
    QMessageLogContext ctx(nullFile ? nullptr : file.c_str(), line, nullFunc ? nullptr : func.c_str(), nullCat ? nullptr : cat.c_str());
    LogMessage lmsg(kTypes[typeIdx], ctx, msg);
    lmsg.setAttributes(attrs);
    PatternFormatter f(pattern);
    QString a = f.format(lmsg);
    QString b = f.format(lmsg);
    if (a != b)
        violation("PatternFormatter::format is not deterministic for one message", a.left(300), b.left(300));
    PatternFormatter f2(pattern); // a second object built from the same text behaves the same (no hidden parser state)
    QString c = f2.format(lmsg);
    if (a != c)
        violation("two PatternFormatter objects of one pattern disagree", a.left(300), c.left(300));
    return 0;
#endif

#if defined(FUZZ_FUNC)
    (void)nattr; (void)nullFunc;
    std::string spec = chunk(fdp, 8);
    std::string func = fdp.ConsumeRemainingBytesAsString();
    QMessageLogContext ctx(nullFile ? nullptr : "f.cpp", line, func.c_str(), nullCat ? nullptr : "cat");
    LogMessage lmsg(kTypes[typeIdx], ctx, QStringLiteral("m"));
    QString specText = QString::fromLatin1(spec.data(), int(spec.size()));
    specText.remove(QChar('}'));
    if (hasLongDigitRun(specText)) {
        g_counters[1]++;
        specText.clear();
    }
    PatternFormatter f1(QStringLiteral("%{func}"));
    PatternFormatter f2(QStringLiteral("[%{func:") + specText + QStringLiteral("}] %{function}|%{func:10!}|%{func:>10!}|%{func:*^30}"));
    QString a = f1.format(lmsg), a2 = f1.format(lmsg);
    if (a != a2)
        violation("%{func} is not deterministic", a.left(300), a2.left(300));
    // the cleaned name never invents text: it is at most as long as the signature (in UTF-16 units of its decoding)
    (void)f2.format(lmsg);
    return 0;
#endif

#if defined(FUZZ_FORMATTERS)
    std::string file = chunk(fdp, 256), func = chunk(fdp, 512), cat = chunk(fdp, 128);
    QVariantHash attrs;
    static const char *routed[] = { "app_name", "app_version", "os_name", "os_version", "kernel_version", "build_abi", "cpu_arch",
                                    "host_name", "line", "file", "thread_id", "seq_number" };
    for (int i = 0; i < nattr; i++) {
        QString name = fdp.ConsumeBool() ? QString::fromLatin1(routed[fdp.ConsumeIntegralInRange<int>(0, 11)]) : text(fdp, chunk(fdp, 12), mode == 2 ? 2 : 0);
        attrs.insert(name, variantFrom(fdp, mode));
    }
    const bool colour = fdp.ConsumeBool();
    const int width = fdp.ConsumeIntegralInRange<int>(-3, 250);
    const int seqMode = fdp.ConsumeIntegralInRange<int>(0, 3);
    QString sdkName = text(fdp, chunk(fdp, 16), mode), sdkVer = text(fdp, chunk(fdp, 8), mode);
    QString msg = text(fdp, fdp.ConsumeRemainingBytesAsString(), mode);
    QMessageLogContext ctx(nullFile ? nullptr : file.c_str(), line, nullFunc ? nullptr : func.c_str(), nullCat ? nullptr : cat.c_str());
    LogMessage lmsg(kTypes[typeIdx], ctx, msg);
    lmsg.setAttributes(attrs);
    {
        // the formatter keeps state between messages (thread table, width of the category column): one object sees a sequence of
        // messages whose categories differ in length - the long one first, then a short / the default / no category, then the long one again
        const std::string cat2 = seqMode == 1 ? cat.substr(0, cat.size() / 4) : seqMode == 2 ? cat + "x" : std::string("default");
        QMessageLogContext ctx2(nullFile ? nullptr : file.c_str(), line, nullFunc ? nullptr : func.c_str(), seqMode == 3 ? nullptr : cat2.c_str());
        LogMessage lmsg2(kTypes[(typeIdx + 1) % 5], ctx2, msg.left(40));
        PrettyFormatter pf(colour, width);
        const QString p1 = pf.format(lmsg);
        (void)pf.format(lmsg); // second call takes the "known thread / known category width" path
        const QString p2 = pf.format(lmsg2);
        (void)pf.format(lmsg);
        const QString p3 = pf.format(lmsg2);
        if (p2 != p3)
            violation("PrettyFormatter: the same short-category message formatted twice in a row of the same sequence differs", p2.left(300), p3.left(300));
        // the pretty line is text: whatever the widths, it never contains a NUL the message did not bring
        if (mode != 2 && !msg.contains(QChar(0)) && (p1.contains(QChar(0)) || p2.contains(QChar(0))))
            violation("PrettyFormatter output contains U+0000 although no input did", p2.left(300));
    }
    {
        JsonFormatter jc(true), ji(false);
        QString oc = jc.format(lmsg), oi = ji.format(lmsg);
        if (mode != 2) {
            // invalid double values (NaN/inf) have no JSON form; QJsonValue turns them into null: still valid JSON
            mustParse("JsonFormatter(compact) output is not one valid JSON object", oc);
            mustParse("JsonFormatter(indented) output is not one valid JSON object", oi);
            if (oc.contains(QChar('\n')) || oc.contains(QChar('\r')))
                violation("compact JSON contains a line break", oc.left(300));
        }
    }
    {
        SentryFormatter sf(sdkName, sdkVer);
        QString o = sf.format(lmsg);
        if (mode != 2)
            mustParse("SentryFormatter output is not one valid JSON object", o);
    }
    return 0;
#endif

#if defined(FUZZ_CATFILTER)
    const int mode = fdp.ConsumeIntegralInRange<int>(0, 2);
    std::string rules = chunk(fdp, 256);
    std::string cat = fdp.ConsumeRemainingBytesAsString();
    if (cat.size() > 256)
        cat.resize(256);
    CategoryFilter f(text(fdp, rules, mode));
    for (int t = 0; t < 5; t++) {
        QMessageLogContext ctx("f.cpp", 1, "fn", cat.c_str());
        LogMessage lmsg(kTypes[t], ctx, QStringLiteral("m"));
        bool a = f.filter(lmsg), b = f.filter(lmsg);
        if (a != b)
            violation("CategoryFilter verdict is not deterministic");
    }
    return 0;
#endif

#if defined(FUZZ_REGEXP)
    static const char *menu[] = { "error", "^start", "end$", "[0-9]+", "a|b", "^(?!.*password).*$", "(?i)warning", "\\bword\\b", "^$", ".*",
                                  "(a+)+$", "\\d{3}-\\d{4}", "^(?!.*(secret|token)).*$", "[[:alpha:]]+", "\\p{L}+", "(?<x>a)\\k<x>", "(", "[" };
    const int idx = fdp.ConsumeIntegralInRange<int>(0, int(sizeof(menu) / sizeof(menu[0])) - 1);
    const int mode = fdp.ConsumeIntegralInRange<int>(0, 2);
    const bool ci = fdp.ConsumeBool();
    std::string m = fdp.ConsumeRemainingBytesAsString();
    QString msg = text(fdp, m, mode);
    QMessageLogContext ctx("f.cpp", 1, "fn", "cat");
    LogMessage lmsg(kTypes[fdp.remaining_bytes() % 5], ctx, msg);
    if (ci) {
        RegExpFilter f(QRegularExpression(QString::fromLatin1(menu[idx]), QRegularExpression::CaseInsensitiveOption));
        bool a = f.filter(lmsg), b = f.filter(lmsg);
        if (a != b)
            violation("RegExpFilter verdict is not deterministic");
    } else {
        RegExpFilter f(QString::fromLatin1(menu[idx]));
        bool a = f.filter(lmsg), b = f.filter(lmsg);
        if (a != b)
            violation("RegExpFilter verdict is not deterministic");
    }
    DuplicateFilter d;
    bool first = d.filter(lmsg), second = d.filter(lmsg);
    if (second || (first != !msg.isEmpty() && first != true))
        (void)0; // decided by C16; here only memory safety
    return 0;
#endif

#if defined(FUZZ_CATDIFF)
    // bytes -> tokens of the rule grammar, so the fuzzer explores rule structure instead of dying in the line regex
    static const char *tok[] = { "a", "b", "x", "ab", ".", "*", "=", "true", "false", ";", "\n", " ", "\t", ".debug", ".info", ".warning",
                                 ".critical", ".fatal", "+", "?", "(", ")", "[", "]", "\\", "^", "$", "|", "{", "}", "=true", "=false",
                                 "ab.x", "*.x", "ab.*", "\r", "A", "1", "-", "_", "TRUE", "debug", "\xc3\xa9", "\xd0\x96" };
    const int ntok = int(sizeof(tok) / sizeof(tok[0]));
    std::string catSoFar; // rules may quote the probed category (whole / first half / second half): overlapping rules become frequent
    auto build = [&](size_t maxTokens, bool forCategory) {
        std::string s;
        size_t n = fdp.ConsumeIntegralInRange<size_t>(0, maxTokens);
        for (size_t i = 0; i < n && fdp.remaining_bytes() > 0; i++) {
            const int k = fdp.ConsumeIntegralInRange<int>(0, ntok - 1 + (forCategory ? 0 : 6));
            if (k >= ntok) {
                const size_t half = catSoFar.size() / 2;
                s += (k - ntok) % 3 == 0 ? catSoFar : (k - ntok) % 3 == 1 ? catSoFar.substr(0, half) : catSoFar.substr(half);
                continue;
            }
            const char *t = tok[k];
            if (forCategory && (t[0] == '\n' || t[0] == '\r' || t[0] == ';' ))
                continue; // probed categories contain no line breaks (DESIGN C15 domain decision); ';' is fine but rules cannot express it
            s += t;
        }
        return s;
    };
    std::string cat = build(12, true);
    catSoFar = cat;
    std::string rules = build(60, false);
    QString qrules = QString::fromUtf8(rules.data(), int(rules.size()));
    QString qcat = QString::fromUtf8(cat.data(), int(cat.size()));
    CategoryFilter f(qrules);
    auto ref = refglob::parseRules(qrules);
    for (int t = 0; t < 5; t++) {
        QMessageLogContext ctx("f.cpp", 1, "fn", cat.c_str());
        LogMessage lmsg(kTypes[t], ctx, QStringLiteral("m"));
        bool got = f.filter(lmsg);
        bool want = refglob::verdict(ref, qcat, t);
        g_counters[4]++;
        if (!want)
            g_counters[6]++;
        if (got != want)
            violation(want ? "CategoryFilter rejects where ordered glob rules pass" : "CategoryFilter passes where ordered glob rules reject", qrules, qcat);
    }
    return 0;
#endif

#if defined(FUZZ_PATDIFF)
    static const char *tok[] = { "%{message}", "%{type}", "%{category}", "%{file}", "%{line}", "%{function}", "%{shortfile}", "%{threadid}",
                                 "%{qthreadptr}", "%{if-debug}", "%{if-info}", "%{if-warning}", "%{if-critical}", "%{if-fatal}", "%{endif}", "%%", "%",
                                 "{", "}", "%{", ":", "?", ",", "<", ">", "^", "!", " ", "[", "]", "ab", "x", "-", "0", "1", "2", "5", "9", "10",
                                 "%{k}", "%{k?}", "%{k?1}", "%{k?2,1}", "%{k?,2}", "%{u}", "%{u?}", "%{u?1}", "%{u?1,1}", "%{u?,1}", "%{message:",
                                 "%{type:", "%{k:", "%{u?:", "%{category:", "*", "\xe2\x80\x8b", "\xc3\xa9", "\xf0\x9f\x98\x80", "%{shortfile /src}",
                                 "%{unknownthing}", "%{time yyyy}", "\n" };
    const int ntok = int(sizeof(tok) / sizeof(tok[0]));
    auto build = [&](size_t maxTokens) {
        std::string s;
        size_t n = fdp.ConsumeIntegralInRange<size_t>(0, maxTokens);
        for (size_t i = 0; i < n && fdp.remaining_bytes() > 0; i++)
            s += tok[fdp.ConsumeIntegralInRange<int>(0, ntok - 1)];
        return s;
    };
    const int typeIdx = fdp.ConsumeIntegralInRange<int>(0, 4);
    const bool haveK = fdp.ConsumeBool();
    std::string k = build(4), m = build(6);
    std::string p = build(24);
    static const char *files[] = { "/src/app/main.cpp", "main.cpp", "C:\\src\\x.cpp", "/src", "" };
    static const char *cats[] = { "default", "app.net", "x", "" };
    const char *file = files[fdp.ConsumeIntegralInRange<int>(0, 4)];
    const char *cat = cats[fdp.ConsumeIntegralInRange<int>(0, 3)];
    QString pattern = QString::fromUtf8(p.data(), int(p.size()));
    {   // widths of four digits and more only make the outputs (and the comparison) long; large widths are C14's subject
        int run = 0;
        bool wide = false;
        for (QChar ch : pattern) { run = (ch.unicode() >= '0' && ch.unicode() <= '9') ? run + 1 : 0; if (run >= 4) wide = true; }
        if (wide) { g_counters[1]++; return 0; }
    }
    QString msg = QString::fromUtf8(m.data(), int(m.size()));
    QMessageLogContext ctx(file, 42, "void ns::f(int)", cat);
    LogMessage lmsg(kTypes[typeIdx], ctx, msg);
    refpattern::Message rm;
    rm.typeIdx = typeIdx;
    rm.text = msg;
    rm.category = QString::fromLatin1(cat);
    rm.file = QString::fromLatin1(file);
    rm.function = QStringLiteral("void ns::f(int)");
    rm.line = 42;
    rm.threadId = lmsg.threadId();
    rm.time = lmsg.time();
    if (haveK) {
        QString kv = QString::fromUtf8(k.data(), int(k.size()));
        lmsg.setAttribute(QStringLiteral("k"), kv);
        rm.attrs.insert(QStringLiteral("k"), kv);
    }
    PatternFormatter f(pattern);
    QString got = f.format(lmsg);
    refpattern::Result r = refpattern::evaluate(pattern, rm);
    if (r.grade == refpattern::Skip || r.opaque) {
        g_counters[5]++;
        return 0;
    }
    if (r.tokenless) {
        g_counters[4]++;
        if (got != msg && !got.isEmpty())
            violation("token-less pattern yields neither the message nor nothing", pattern, got);
        return 0;
    }
    if (r.grade == refpattern::Exact) {
        g_counters[4]++;
        if (!r.exact.contains(got))
            violation("PatternFormatter output differs from the documented rules (reference)", pattern + " || msg=" + msg, got + " || want=" + r.exact.value(0));
        return 0;
    }
    g_counters[7]++;
    bool ok = false;
    for (const QString &full : r.full)
        ok = ok || refpattern::boundedMatchMasked(got, full, r.fullMask, r.budget, r.keepPrefix, r.keepSuffixFrom);
    if (!ok)
        violation("PatternFormatter output removes more than the optional-attribute windows allow", pattern + " || msg=" + msg, got + " || full=" + r.full.value(0));
    return 0;
#endif
}
