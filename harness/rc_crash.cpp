// C10 — a crash or I/O failure during rotation does not destroy flushed records.
//
// Case:   { cfg:{L,N,startup,daily,compress,name}, prefix:[{o:"w",len}|{o:"adv",ms}|{o:"restart"}],
//           advBeforeTrigger(ms), triggerLen, tail:[len...], deep:bool }
// For the triggering write (fresh sink + one record that rotates) EVERY intercepted mutating
// call k = 1..K is a crash point (child _exit()s right before it) and, for rename*/link*/unlink/
// creating open, a failure point for each errno of a menu (the call returns -1, the child goes
// on). With deep=true every failing renameat2 is additionally combined with every later crash
// point (the fallback paths Qt takes: link+unlink, copy+remove).
// Oracle: every record that was in a file before the triggering write is afterwards - and again
// after a restart that writes a tail of further records - a whole line of an intact file (plain,
// or *.gz passing the strict gzip check), unless the retention limit accounts for its file; no
// rotated name changes content; the tail records are all there.
#include "common/gen.h"
#include "common/rotmodel.h"
#include "common/shim.h"

#include "qtlogger/sinks/rotatingfilesink.h"

#include <QDir>

#include <clocale>
#include <cstring>
#include <set>
#include <sys/wait.h>

using namespace QtLogger;
using namespace verif;
using namespace rotmodel;

namespace {

const long long kDayMs = 86400000LL;
const long long kEpoch0 = 1431648000000LL; // 2015-05-15T00:00:00Z
const time_t kRealClockFloor = 1577836800;

QString recText(int idx, int len)
{
    QString s = QString("r%1").arg(idx, 4, 10, QChar('0'));
    while (s.size() < len) s += QChar('.');
    return s;
}

QJsonObject generate()
{
    QJsonObject cfg;
    static const int Ls[] = { 0, 8, 12, 20, 40 };
    int L = Ls[pick(0, 4)];
    static const int Ns[] = { -1, 0, 2, 3, 4 };
    int N = Ns[pick(0, 4)];
    bool startup = chance(40), daily = chance(40), compress = chance(60);
    if (L == 0 && !startup && !daily) L = 12;
    cfg["L"] = L;
    cfg["N"] = N;
    cfg["startup"] = startup;
    cfg["daily"] = daily;
    cfg["compress"] = compress;
    // the last name is so long (247 bytes) that every rotated name exceeds NAME_MAX: each rotation attempt fails as a whole
    // (rename, link and the copy fallback all get ENAMETOOLONG from the kernel, no injection involved)
    static const std::string longName = std::string(243, 'L') + ".log";
    static const char *names[] = { "app.log", "app.log", "applog", "a+b.log", "app.log", "applog", longName.c_str(), ".app.log" };
    cfg["name"] = names[pick(0, 7)];
    QJsonObject c;
    c["cfg"] = cfg;
    QJsonArray prefix;
    int n = pick(1, 10);
    for (int i = 0; i < n; i++) {
        QJsonObject o;
        int k = pick(0, 9);
        if (k < 7) { o["o"] = "w"; o["len"] = pick(5, 14); }
        else if (k < 8) { o["o"] = "adv"; o["ms"] = QString::number(chance(50) ? kDayMs : pick(10, 5000)); }
        else o["o"] = "restart";
        prefix.append(o);
    }
    { QJsonObject o; o["o"] = "w"; o["len"] = pick(5, 14); prefix.append(o); } // the active file is never empty
    c["prefix"] = prefix;
    c["advBeforeTrigger"] = QString::number(daily && chance(60) ? kDayMs + pick(0, 1000) : pick(5, 2000));
    c["triggerLen"] = L > 0 ? std::max(5, L - pick(0, 3)) : pick(5, 14);
    QJsonArray tail;
    int t = pick(1, 6);
    for (int i = 0; i < t; i++) tail.append(pick(5, 14));
    c["tail"] = tail;
    c["deep"] = std::string(envOr("VERIF_TIER", "quick")) == "thorough" ? chance(50) : chance(8);
    return c;
}

struct Cfg
{
    int L, N;
    bool startup, daily, compress;
    std::string name;
};

RotatingFileSink *mkSink(const Cfg &cfg, const std::string &dir)
{
    RotatingFileSink::Options opt;
    if (cfg.startup) opt |= RotatingFileSink::RotationOnStartup;
    if (cfg.daily) opt |= RotatingFileSink::RotationDaily;
    if (cfg.compress) opt |= RotatingFileSink::Compression;
    return new RotatingFileSink(QString::fromStdString(dir + "/" + cfg.name), cfg.L, cfg.N, opt);
}

void stampFresh(const std::string &dir, long long ms)
{
    for (auto &n : listDir(dir)) {
        struct stat st;
        const std::string p = dir + "/" + n;
        if (stat(p.c_str(), &st) != 0 || st.st_mtime < kRealClockFloor) continue;
        struct timespec ts[2];
        ts[0].tv_sec = ms / 1000;
        ts[0].tv_nsec = (ms % 1000) * 1000000;
        ts[1] = ts[0];
        utimensat(AT_FDCWD, p.c_str(), ts, 0);
    }
}

void copyDir(const std::string &from, const std::string &to)
{
    QDir(QString::fromStdString(to)).removeRecursively();
    mkdir(to.c_str(), 0755);
    for (auto &n : listDir(from)) {
        std::string data;
        readWhole(from + "/" + n, data);
        FILE *f = fopen((to + "/" + n).c_str(), "wb");
        if (f) { fwrite(data.data(), 1, data.size(), f); fclose(f); }
        struct stat st;
        if (stat((from + "/" + n).c_str(), &st) == 0) {
            struct timespec ts[2] = { st.st_mtim, st.st_mtim };
            utimensat(AT_FDCWD, (to + "/" + n).c_str(), ts, 0);
        }
    }
}

struct DirState
{
    // record line -> names of intact files holding it as a whole line
    std::map<std::string, std::set<std::string>> where;
    std::map<std::string, std::string> contentByName; // every file, raw bytes
    int schemeFiles = 0;                               // files following the rotated-name scheme (valid or not)
    std::map<std::string, long long> minRecIdxOfFile;  // scheme files with parseable content: smallest record index
    std::vector<std::string> invalidGz;
};

long long recIndexOf(const std::string &line)
{
    if (line.size() >= 5 && line[0] == 'r' && isdigit((unsigned char)line[1])) return atoll(line.c_str() + 1);
    return -1;
}

DirState inspect(const std::string &dir, const Cfg &cfg)
{
    DirState s;
    NameScheme scheme(cfg.name);
    for (auto &n : listDir(dir)) {
        std::string raw, content;
        readWhole(dir + "/" + n, raw);
        s.contentByName[n] = raw;
        std::string date;
        long long idx;
        bool gz = false;
        const bool isActive = n == cfg.name;
        const bool isRot = !isActive && scheme.parse(n, &date, &idx, &gz);
        if (!isActive && !isRot) continue;
        if (isRot) s.schemeFiles++;
        bool intact = true;
        if (gz) {
            std::string err;
            intact = gunzipStrict(raw, content, err);
            if (!intact) s.invalidGz.push_back(n + ": " + err);
        } else {
            content = raw;
        }
        if (!intact) continue;
        long long minIdx = -1;
        size_t pos = 0;
        while (pos < content.size()) {
            size_t nl = content.find('\n', pos);
            if (nl == std::string::npos) break; // a trailing partial line is not a whole record
            std::string line = content.substr(pos, nl - pos);
            s.where[line].insert(n);
            long long ri = recIndexOf(line);
            if (ri >= 0 && (minIdx < 0 || ri < minIdx)) minIdx = ri;
            pos = nl + 1;
        }
        if (isRot && minIdx >= 0) s.minRecIdxOfFile[n] = minIdx;
    }
    return s;
}

// may the record be missing because retention removed its file?
bool retentionExplains(const DirState &s, const Cfg &cfg, const std::string &line)
{
    if (cfg.N < 2) return false;
    const long long ri = recIndexOf(line);
    int newerOrUnknown = 0;
    NameScheme scheme(cfg.name);
    for (auto &kv : s.contentByName) {
        std::string date;
        long long idx;
        bool gz;
        if (kv.first == cfg.name || !scheme.parse(kv.first, &date, &idx, &gz)) continue;
        auto it = s.minRecIdxOfFile.find(kv.first);
        if (it == s.minRecIdxOfFile.end() || it->second > ri) newerOrUnknown++;
    }
    return newerOrUnknown >= cfg.N - 1;
}

std::string checkRequired(const DirState &s, const Cfg &cfg, const std::vector<std::string> &required, const char *stage)
{
    for (auto &line : required) {
        if (s.where.count(line)) continue;
        if (retentionExplains(s, cfg, line)) continue;
        std::string files;
        for (auto &kv : s.contentByName) files += " " + kv.first + "(" + std::to_string(kv.second.size()) + ")";
        return std::string(stage) + ": record '" + line + "' had reached a file before the rotating write and is now in no intact file (file-count limit " + std::to_string(cfg.N) + "); directory:" + files;
    }
    return "";
}

struct TraceLine { int k; std::string call, path; };

std::vector<TraceLine> readTrace(const std::string &path)
{
    std::vector<TraceLine> out;
    std::string data;
    readWhole(path, data);
    size_t pos = 0;
    while (pos < data.size()) {
        size_t nl = data.find('\n', pos);
        if (nl == std::string::npos) break;
        std::string l = data.substr(pos, nl - pos);
        pos = nl + 1;
        TraceLine t;
        size_t s1 = l.find(' '), s2 = l.find(' ', s1 + 1);
        t.k = atoi(l.substr(0, s1).c_str());
        t.call = l.substr(s1 + 1, s2 == std::string::npos ? std::string::npos : s2 - s1 - 1);
        t.path = s2 == std::string::npos ? "" : l.substr(s2 + 1);
        out.push_back(t);
    }
    return out;
}

// child: fresh sink on `dir`, one armed write + flush; returns exit status (77 = crashed at the point)
int runChild(const Cfg &cfg, const std::string &dir, const QString &text, int crashAt, int failAt, int failErrno, const std::string &tracePath, int stickyErrno = 0,
             const QString &afterText = QString())
{
    fflush(nullptr);
    pid_t pid = fork();
    if (pid == 0) {
        int tfd = -1;
        if (!tracePath.empty()) tfd = open(tracePath.c_str(), O_CREAT | O_WRONLY | O_TRUNC | O_APPEND, 0644);
        // silence the sink's own diagnostics in the children
        int devnull = open("/dev/null", O_WRONLY);
        if (devnull >= 0) { dup2(devnull, 2); }
        RotatingFileSink *sink = mkSink(cfg, dir);
        QMessageLogContext ctx("f.cpp", 1, "f", "c");
        LogMessage m(QtInfoMsg, ctx, text);
        verif_shim_arm(crashAt, failAt, failErrno, tfd);
        if (stickyErrno) verif_shim_sticky(stickyErrno);
        sink->send(m);
        sink->flush();
        verif_shim_disarm();
        if (stickyErrno) verif_shim_sticky(0);
        if (!afterText.isNull()) { // the fault is over; the same sink keeps logging
            LogMessage m2(QtInfoMsg, ctx, afterText);
            sink->send(m2);
            sink->flush();
        }
        delete sink;
        _exit(0);
    }
    int st = 0;
    waitpid(pid, &st, 0);
    return WIFEXITED(st) ? WEXITSTATUS(st) : 200 + WTERMSIG(st);
}

std::string run(const QJsonObject &c)
{
    const QJsonObject jc = c["cfg"].toObject();
    Cfg cfg { jc["L"].toInt(), jc["N"].toInt(), jc["startup"].toBool(), jc["daily"].toBool(), jc["compress"].toBool(), jc["name"].toString().toStdString() };
    const std::string scratch = envOr("VERIF_SCRATCH", "/dev/shm");
    const std::string tmpl = scratch + "/c10-template", work = scratch + "/c10-work", tracePath = scratch + "/c10-trace.txt";
    QDir(QString::fromStdString(tmpl)).removeRecursively();
    mkdir(tmpl.c_str(), 0755);
    long long now = kEpoch0 + 36000000;
    verif_clock_enable(true);
    verif_clock_set(now);
    QMessageLogContext ctx("f.cpp", 1, "f", "c");

    // ---- prefix, in process, on the template directory ----
    int widx = 0;
    {
        RotatingFileSink *sink = mkSink(cfg, tmpl);
        for (auto ov : c["prefix"].toArray()) {
            QJsonObject o = ov.toObject();
            const QString k = o["o"].toString();
            if (k == "w") {
                LogMessage m(QtInfoMsg, ctx, recText(widx++, o["len"].toInt()));
                sink->send(m);
                sink->flush();
            } else if (k == "adv") {
                now += o["ms"].toString().toLongLong();
                verif_clock_set(now);
                continue;
            } else {
                delete sink;
                now += 1;
                verif_clock_set(now);
                sink = mkSink(cfg, tmpl);
            }
            stampFresh(tmpl, now);
            now += 2;
            verif_clock_set(now);
        }
        delete sink;
        stampFresh(tmpl, now);
    }
    now += c["advBeforeTrigger"].toString().toLongLong();
    verif_clock_set(now);

    const DirState before = inspect(tmpl, cfg);
    std::vector<std::string> required;
    for (auto &kv : before.where) required.push_back(kv.first);
    if (!before.invalidGz.empty()) { verif_clock_enable(false); return "prefix left an invalid gzip: " + before.invalidGz[0]; }
    const QString triggerText = recText(widx++, c["triggerLen"].toInt());
    const QString afterText = recText(widx++, 9); // written by the same sink once the injected failure is over (failure variants only)
    const int tailStartIdx = widx;

    // ---- learn K ----
    copyDir(tmpl, work);
    int rc = runChild(cfg, work, triggerText, -1, -1, 0, tracePath);
    if (rc != 0) { verif_clock_enable(false); return "baseline child exited with " + std::to_string(rc); }
    const std::vector<TraceLine> trace = readTrace(tracePath);
    const int K = int(trace.size());
    int firstRename = -1, lastOpen = -1;
    for (auto &t : trace) {
        if (firstRename < 0 && (t.call.rfind("rename", 0) == 0)) firstRename = t.k;
        if (t.call.rfind("open", 0) == 0 && t.path.size() >= cfg.name.size() && t.path.compare(t.path.size() - cfg.name.size(), cfg.name.size(), cfg.name) == 0) lastOpen = t.k;
    }
    const bool rotated = firstRename > 0;
    {   // the fault-free run itself must satisfy the oracle
        DirState s = inspect(work, cfg);
        std::string d = checkRequired(s, cfg, required, "fault-free rotating write");
        if (!d.empty()) { verif_clock_enable(false); return d; }
    }

    struct Variant { int crashAt, failAt, err; int sticky = 0; };
    std::vector<Variant> variants;
    for (int k = 1; k <= K; k++) variants.push_back({ k, -1, 0 });
    std::vector<Variant> failVariants;
    for (auto &t : trace) {
        const bool ren = t.call.rfind("rename", 0) == 0, lnk = t.call.rfind("link", 0) == 0, unl = t.call == "unlink", crt = t.call == "open-create";
        if (!(ren || lnk || unl || crt)) continue;
        for (int e : { EACCES, ENOSPC, EIO }) failVariants.push_back({ -1, t.k, e });
        if (t.call == "renameat2") { failVariants.push_back({ -1, t.k, EINVAL }); failVariants.push_back({ -1, t.k, ENOSYS }); }
    }
    for (auto &v : failVariants) variants.push_back(v);
    // the whole operation failing, not one call of it: while the write runs the directory refuses every rename / link / unlink and
    // every creation of a new file (what a directory without write permission, a read-only remount or a full disk look like to Qt,
    // whose QFile::rename falls back from renameat2 to link+unlink to copy+remove before it gives up)
    if (rotated)
        for (int e : { EACCES, EROFS, ENOSPC }) variants.push_back({ -1, -1, e, e });

    std::string failure;
    long children = 1, insideRotation = 0, stickyRuns = 0, duringChecked = 0;
    auto runVariant = [&](const Variant &v) -> std::string {
        copyDir(tmpl, work);
        const bool wantTrace = c["deep"].toBool() && v.failAt > 0 && v.crashAt < 0;
        const bool survives = v.crashAt < 0; // a failing call, not a crash: the write returns and the sink goes on
        int st = runChild(cfg, work, triggerText, v.crashAt, v.failAt, v.err, wantTrace ? tracePath : std::string(), v.sticky, survives ? afterText : QString());
        children++;
        if (v.sticky) stickyRuns++;
        const std::string label = v.sticky ? "every rename/link/unlink/create of the rotating write failing with errno " + std::to_string(v.sticky) + " (directory not writable)" : ((v.crashAt > 0 ? "crash before call #" + std::to_string(v.crashAt) : std::string())
                + (v.failAt > 0 ? std::string(v.crashAt > 0 ? " with " : "") + "call #" + std::to_string(v.failAt) + " (" + trace[size_t(v.failAt - 1)].call + ") failing with errno " + std::to_string(v.err) : std::string())
                + " of " + std::to_string(K));
        if (v.crashAt > 0 && st != 77 && st != 0) return label + ": child ended with status " + std::to_string(st);
        if (v.crashAt < 0 && st != 0) return label + ": child ended with status " + std::to_string(st) + " (the sink must survive a failing call)";
        const int point = v.sticky ? firstRename : (v.crashAt > 0 ? v.crashAt : v.failAt);
        if (rotated && point >= firstRename && (lastOpen < 0 || point <= lastOpen)) insideRotation++;
        stampFresh(work, now);
        // stage 1: right after the crash / failure
        DirState s1 = inspect(work, cfg);
        std::string d = checkRequired(s1, cfg, required, (label + ", right after").c_str());
        if (!d.empty()) return d;
        // A failing rename / link / unlink / creation of the compressed file does not stop the sink: the record whose write ran into the
        // failure and the next one (both flushed by a sink that reported nothing) must be in a file. Exempt: the failing call was the
        // (re)creation of the log file itself - then there is no file to write to.
        std::vector<std::string> during;
        if (survives) {
            bool activeCreateFailed = false;
            if (v.failAt > 0) {
                const TraceLine &t = trace[size_t(v.failAt - 1)];
                activeCreateFailed = t.call == "open-create" && t.path.size() >= cfg.name.size()
                        && t.path.compare(t.path.size() - cfg.name.size(), cfg.name.size(), cfg.name) == 0
                        && (t.path.size() == cfg.name.size() || t.path[t.path.size() - cfg.name.size() - 1] == '/');
            }
            if (!activeCreateFailed) {
                during = { triggerText.toStdString(), afterText.toStdString() };
                duringChecked++;
                for (auto &line : during)
                    if (!s1.where.count(line) && !retentionExplains(s1, cfg, line)) {
                        std::string files;
                        for (auto &kv : s1.contentByName) files += " " + kv.first + "(" + std::to_string(kv.second.size()) + ")";
                        return label + ": record '" + line + "', written and flushed by the sink " + (line == during[0] ? "while" : "right after") + " the rotation failed, is in no intact file although the log file could be written; directory:" + files;
                    }
            }
        }
        // stage 2: a sink started afterwards continues
        long long t2 = now + 50;
        verif_clock_set(t2);
        std::vector<std::string> tailLines;
        {
            RotatingFileSink *sink = mkSink(cfg, work);
            int ti = tailStartIdx;
            for (auto lv : c["tail"].toArray()) {
                const QString text = recText(ti++, lv.toInt());
                LogMessage m(QtInfoMsg, ctx, text);
                sink->send(m);
                sink->flush();
                tailLines.push_back(text.toStdString());
                stampFresh(work, t2);
                t2 += 2;
                verif_clock_set(t2);
            }
            delete sink;
        }
        verif_clock_set(now);
        DirState s2 = inspect(work, cfg);
        d = checkRequired(s2, cfg, required, (label + ", after a restart and " + std::to_string(tailLines.size()) + " more records").c_str());
        if (!d.empty()) return d;
        for (auto &line : during)
            if (!s2.where.count(line) && !retentionExplains(s2, cfg, line))
                return label + ": record '" + line + "', written by the sink whose rotation failed, disappeared after a restart and " + std::to_string(tailLines.size()) + " more records";
        for (auto &tl : tailLines)
            if (!s2.where.count(tl) && !retentionExplains(s2, cfg, tl))
                return label + ": record '" + tl + "' written after the restart is in no intact file (logging does not continue)";
        // no rotated name changes content (names that existed before the write, and names left by the crash)
        NameScheme scheme(cfg.name);
        for (const DirState *st0 : { &before, static_cast<const DirState *>(&s1) })
            for (auto &kv : st0->contentByName) {
                std::string date; long long idx; bool gz;
                if (kv.first == cfg.name || !scheme.parse(kv.first, &date, &idx, &gz)) continue;
                auto it = s2.contentByName.find(kv.first);
                if (it != s2.contentByName.end() && it->second != kv.second)
                    return label + ": rotated file '" + kv.first + "' was overwritten (content changed)";
            }
        return "";
    };
    for (auto &v : variants) {
        failure = runVariant(v);
        if (!failure.empty()) break;
    }
    // deep: a failing renameat2 combined with every later crash point of the path Qt then takes
    long deepChildren = 0;
    if (failure.empty() && c["deep"].toBool()) {
        for (auto &fv : failVariants) {
            if (trace[size_t(fv.failAt - 1)].call != "renameat2") continue;
            copyDir(tmpl, work);
            int st = runChild(cfg, work, triggerText, -1, fv.failAt, fv.err, tracePath);
            children++;
            if (st != 0) { failure = "child with failing renameat2 ended with status " + std::to_string(st); break; }
            const int K2 = int(readTrace(tracePath).size());
            for (int j = fv.failAt + 1; j <= K2; j++) {
                // A failed rename AND a crash is a double fault, beyond "every single failure" of the
                // property: explored and reported as an informational counter, never as a violation.
                const std::string d = runVariant({ j, fv.failAt, fv.err });
                deepChildren++;
                if (!d.empty()) {
                    count("double_fault_losses_informational");
                    if (stats().counters["double_fault_losses_informational"] <= 3) fprintf(stderr, "INFO double fault: %s\n", d.c_str());
                }
            }
        }
    }
    verif_clock_enable(false);
    QDir(QString::fromStdString(tmpl)).removeRecursively();
    QDir(QString::fromStdString(work)).removeRecursively();
    if (!failure.empty())
        return failure + "  cfg L=" + std::to_string(cfg.L) + " N=" + std::to_string(cfg.N) + " startup=" + std::to_string(cfg.startup) + " daily=" + std::to_string(cfg.daily)
                + " compress=" + std::to_string(cfg.compress) + " file=" + cfg.name;

    count("child_runs", children);
    count("crash_points_enumerated", K);
    count("failure_injections", long(failVariants.size()));
    count("deep_fail_plus_crash_runs", deepChildren);
    count("whole_operation_failure_runs", stickyRuns);
    count("failure_runs_in_which_the_records_written_during_and_after_the_failure_were_checked", duringChecked);
    cls("name_too_long_for_rotation", cfg.name.size() > 200);
    count("points_strictly_inside_rotation", insideRotation);
    cls("trigger_rotates", rotated);
    cls("compression", cfg.compress);
    cls("deep", c["deep"].toBool());
    cls("retention_limit", cfg.N >= 2);
    if (rotated) {
        // distinct non-trivial units = (scenario, k, kind) triples inside the rotation
        auto &st = stats();
        const uint64_t base = fnv(QJsonDocument(c).toJson(QJsonDocument::Compact));
        for (auto &v : variants) {
            const int point = v.sticky ? firstRename : (v.crashAt > 0 ? v.crashAt : v.failAt);
            if (point >= firstRename && (lastOpen < 0 || point <= lastOpen))
                st.nontrivial.insert(base ^ (uint64_t(point) * 1000003ULL) ^ (uint64_t(v.err + 1) << 40) ^ (v.crashAt > 0 ? 0x9e3779b97f4a7c15ULL : 0) ^ (v.sticky ? 0x51ed270b5ULL : 0));
        }
    }
    auto &st = stats();
    st.evaluations += children + deepChildren; // one evaluation = one child process run under an injected crash / failure
    count("scenarios");
    if (st.samples.size() < 3 && rotated) {
        QJsonObject sample = c;
        QJsonArray tr;
        for (auto &t : trace) tr.append(QString("%1 %2 %3").arg(t.k).arg(QString::fromStdString(t.call), QString::fromStdString(t.path.substr(t.path.rfind('/') == std::string::npos ? 0 : t.path.rfind('/') + 1))));
        sample["intercepted_calls_of_the_rotating_write"] = tr;
        st.samples.push_back(sample);
    }
    return "";
}

} // namespace

int main()
{
    setlocale(LC_ALL, "");
    return harnessMain("C10 crash or I/O failure during rotation keeps flushed records", generate, run);
}
