// C01 — pipeline evaluation follows the sequential handler semantics.
//
// Case:   { api: "raw"|"simple", rootScoped, root: [Node...], messages: [{type,text,cat}] }
// Oracle: an independent interpreter over the same tree description (interpret()), compared
//         with what recording sinks saw (formatted-or-raw text, attributes, raw text) delivery
//         by delivery, and with the message state after the root pipeline ran.
#include "common/gen.h"

#include "qtlogger/attrhandlers/seqnumberattr.h"
#include "qtlogger/filters/duplicatefilter.h"
#include "qtlogger/filters/functionfilter.h"
#include "qtlogger/functionhandler.h"
#include "qtlogger/pipeline.h"
#include "qtlogger/simplepipeline.h"

using namespace QtLogger;
using namespace verif;

namespace {

// ------------------------------------------------------------------------------ generation
const char *kKeys[] = { "a", "b", "c", "user", "seq_number", "k" };

QJsonValue genAttrValue()
{
    if (chance(50))
        return pick(-3, 50);
    static const char *vals[] = { "", "x", "yy", "val", "true" };
    return QString::fromLatin1(vals[pick(0, 4)]);
}

struct GenCtx
{
    int nextId = 0;
    std::vector<int> completed; // ids that may be shared (fully built, not an ancestor)
};

QJsonObject genNode(GenCtx &g, int depth);

QJsonArray genChildren(GenCtx &g, int depth)
{
    QJsonArray a;
    int n = chance(5) ? 0 : 1 + sized(0, depth == 0 ? 9 : 6);
    for (int i = 0; i < n; i++)
        a.append(genNode(g, depth));
    return a;
}

QJsonObject genNode(GenCtx &g, int depth)
{
    QJsonObject o;
    int r = pick(0, 99);
    if (depth < 3 && chance(depth == 0 ? 22 : 12))
        r = 95; // nested pipeline
    if (r < 14) {
        o["k"] = "attr";
        QJsonArray set;
        int n = pick(0, 3);
        for (int i = 0; i < n; i++)
            set.append(QJsonArray { kKeys[pick(0, 5)], genAttrValue() });
        o["set"] = set;
    } else if (r < 30) {
        o["k"] = "filter";
        int p = pick(0, 5);
        if (p == 0) { o["p"] = "type"; o["arg"] = pick(0, 4); }
        else if (p == 1) { o["p"] = "prefix"; o["arg"] = chance(50) ? "a" : "ab"; }
        else if (p == 2) { o["p"] = "hasattr"; o["arg"] = kKeys[pick(0, 5)]; }
        else if (p == 3) { o["p"] = "const"; o["arg"] = chance(50); }
        else if (p == 4) { o["p"] = "fmtcontains"; o["arg"] = chance(50) ? "F" : "a"; }
        else { o["p"] = "isformatted"; o["arg"] = true; }
    } else if (r < 44) {
        o["k"] = "fmt";
        int v = pick(0, 9);
        o["variant"] = v == 0 ? "empty" : (v == 1 ? "null" : "tag");
        o["tag"] = QString(QChar('F' + pick(0, 3)));
    } else if (r < 56) {
        o["k"] = "fn";
        QJsonArray prog;
        int n = pick(0, 3);
        for (int i = 0; i < n; i++) {
            int w = pick(0, 3);
            if (w == 0) prog.append(QJsonArray { "set", kKeys[pick(0, 5)], genAttrValue() });
            else if (w == 1) prog.append(QJsonArray { "rm", kKeys[pick(0, 5)] });
            else if (w == 2) prog.append(QJsonArray { "fmt", chance(30) ? QString("") : QString("fn%1").arg(pick(0, 3)) });
            else prog.append(QJsonArray { "unfmt" });
        }
        o["prog"] = prog;
        o["ret"] = !chance(25);
    } else if (r < 74) {
        o["k"] = "sink";
    } else if (r < 78) {
        o["k"] = "seq";
        o["name"] = chance(70) ? "seq_number" : "k";
    } else if (r < 81) {
        o["k"] = "dup";
    } else if (r < 85) {
        o["k"] = "null";
        o["via"] = chance(50) ? "list" : "append";
    } else if (r < 90 && !g.completed.empty()) {
        o["k"] = "ref";
        o["to"] = g.completed[size_t(pick(0, int(g.completed.size()) - 1))];
        return o; // no id of its own
    } else if (depth < 3) {
        o["k"] = "pipe";
        o["scoped"] = chance(55);
        o["build"] = pick(0, 3); // 0 ctor-list, 1 append(list), 2 append(ptr), 3 operator<<
        o["id"] = g.nextId++;
        o["children"] = genChildren(g, depth + 1);
        g.completed.push_back(o["id"].toInt());
        return o;
    } else {
        o["k"] = "sink";
    }
    if (o["k"].toString() != "null") {
        o["id"] = g.nextId++;
        g.completed.push_back(o["id"].toInt());
    }
    return o;
}

QJsonObject generate()
{
    GenCtx g;
    QJsonObject c;
    c["api"] = chance(35) ? "simple" : "raw";
    c["rootScoped"] = chance(25);
    c["rootBuild"] = pick(0, 3);
    c["root"] = genChildren(g, 0);
    QJsonArray msgs;
    int n = sized(1, 8);
    static const char *texts[] = { "a", "ab", "abc", "b", "", "F", "a" };
    for (int i = 0; i < n; i++) {
        QJsonObject m;
        m["type"] = pick(0, 4);
        m["text"] = chance(8) ? QJsonValue(QJsonValue::Null) : QJsonValue(QString::fromLatin1(texts[pick(0, 6)]));
        msgs.append(m);
    }
    c["messages"] = msgs;
    return c;
}

// ------------------------------------------------------------------------------ recording sink
struct Delivery
{
    QString text;     // what a sink must use: latest formatted text, or the raw message
    QVariantHash attrs;
    QString raw;
    bool operator==(const Delivery &o) const
    {
        return text == o.text && text.isNull() == o.text.isNull() && attrs == o.attrs && raw == o.raw;
    }
};
struct Delivered
{
    int sinkId;
    Delivery d;
};

std::vector<Delivered> *g_real = nullptr;

struct RecSink : Sink
{
    int id;
    explicit RecSink(int i) : id(i) { }
    void send(const LogMessage &m) override
    {
        g_real->push_back({ id, { m.formattedMessage(), m.attributes(), m.message() } });
    }
};

QVariant toVariant(const QJsonValue &v)
{
    if (v.isDouble()) return QVariant(v.toInt());
    if (v.isBool()) return QVariant(v.toBool());
    return QVariant(strFromJson(v));
}

QString renderAttrs(const QVariantHash &h)
{
    QStringList ks = h.keys();
    ks.sort();
    QString s;
    for (auto &k : ks)
        s += k + "=" + h.value(k).toString() + ",";
    return s;
}

// the formatter's visible-state proof: tag(current text|attributes)
QString fmtOutput(const QString &variant, const QString &tag, const QString &current, const QVariantHash &attrs)
{
    if (variant == "empty") return QString("");
    if (variant == "null") return QString();
    return tag + "(" + current + "|" + renderAttrs(attrs) + ")";
}

// ------------------------------------------------------------------------------ real build
struct Builder
{
    std::map<int, HandlerPtr> byId;

    HandlerPtr make(const QJsonObject &o)
    {
        const QString k = o["k"].toString();
        if (k == "attr") {
            QVariantHash set;
            for (auto e : o["set"].toArray())
                set.insert(e.toArray()[0].toString(), toVariant(e.toArray()[1]));
            struct H : AttrHandler
            {
                QVariantHash set;
                QVariantHash attributes(const LogMessage &) override { return set; }
            };
            auto h = QSharedPointer<H>::create();
            h->set = set;
            return h;
        }
        if (k == "filter")
            return FunctionFilterPtr::create(filterFn(o));
        if (k == "fmt") {
            struct H : Formatter
            {
                QString variant, tag;
                QString format(const LogMessage &m) override
                {
                    return fmtOutput(variant, tag, m.formattedMessage(), m.attributes());
                }
            };
            auto h = QSharedPointer<H>::create();
            h->variant = o["variant"].toString();
            h->tag = o["tag"].toString();
            return h;
        }
        if (k == "fn")
            return FunctionHandlerPtr::create(handlerFn(o));
        if (k == "sink")
            return QSharedPointer<RecSink>::create(o["id"].toInt());
        if (k == "seq")
            return SeqNumberAttrPtr::create(o["name"].toString());
        if (k == "dup")
            return DuplicateFilterPtr::create();
        if (k == "pipe") {
            const bool scoped = o["scoped"].toBool();
            const int build = o["build"].toInt();
            const QJsonArray ch = o["children"].toArray();
            std::vector<std::pair<HandlerPtr, QJsonObject>> kids;
            for (auto cv : ch) {
                QJsonObject co = cv.toObject();
                kids.push_back({ resolve(co), co });
            }
            PipelinePtr p = assemble(kids, scoped, build);
            return p;
        }
        return HandlerPtr();
    }

    static std::function<bool(const LogMessage &)> filterFn(const QJsonObject &o)
    {
        const QString p = o["p"].toString();
        const QJsonValue arg = o["arg"];
        if (p == "type") { QtMsgType t = kTypes[arg.toInt()]; return [t](const LogMessage &m) { return m.type() == t; }; }
        if (p == "prefix") { QString s = arg.toString(); return [s](const LogMessage &m) { return m.message().startsWith(s); }; }
        if (p == "hasattr") { QString s = arg.toString(); return [s](const LogMessage &m) { return m.hasAttribute(s); }; }
        if (p == "fmtcontains") { QString s = arg.toString(); return [s](const LogMessage &m) { return m.formattedMessage().contains(s); }; }
        if (p == "isformatted") return [](const LogMessage &m) { return m.isFormatted(); };
        bool b = arg.toBool();
        return [b](const LogMessage &) { return b; };
    }

    static std::function<bool(LogMessage &)> handlerFn(const QJsonObject &o)
    {
        QJsonArray prog = o["prog"].toArray();
        bool ret = o["ret"].toBool();
        return [prog, ret](LogMessage &m) {
            for (auto sv : prog) {
                QJsonArray s = sv.toArray();
                QString op = s[0].toString();
                if (op == "set") m.setAttribute(s[1].toString(), toVariant(s[2]));
                else if (op == "rm") m.removeAttribute(s[1].toString());
                else if (op == "fmt") m.setFormattedMessage(strFromJson(s[1]));
                else if (op == "unfmt") m.setFormattedMessage(QString());
            }
            return ret;
        };
    }

    // null nodes: only "list" insertion keeps them; "append" insertion is dropped by the API
    static bool keepsNull(const QJsonObject &co, int build)
    {
        Q_UNUSED(build)
        return co["k"].toString() == "null" && co["via"].toString() == "list";
    }

    PipelinePtr assemble(const std::vector<std::pair<HandlerPtr, QJsonObject>> &kids, bool scoped, int build)
    {
        PipelinePtr p;
        size_t start = 0;
        auto viaList = [&](size_t i) { return kids[i].second["k"].toString() == "null" ? kids[i].second["via"].toString() == "list" : (build == 0 || build == 1); };
        if (build == 0) {
            // initializer-list constructor for the leading (up to 3) children that go in by list
            size_t n = 0;
            while (n < kids.size() && n < 3 && viaList(n)) n++;
            switch (n) {
            case 0: p = PipelinePtr::create(scoped); break;
            case 1: p = PipelinePtr(new Pipeline({ kids[0].first }, scoped)); break;
            case 2: p = PipelinePtr(new Pipeline({ kids[0].first, kids[1].first }, scoped)); break;
            default: p = PipelinePtr(new Pipeline({ kids[0].first, kids[1].first, kids[2].first }, scoped)); break;
            }
            start = n;
        } else {
            p = PipelinePtr::create(scoped);
        }
        for (size_t i = start; i < kids.size(); i++)
            add(*p, kids[i].first, kids[i].second, build);
        return p;
    }

    static void add(Pipeline &p, const HandlerPtr &h, const QJsonObject &co, int build)
    {
        const bool isNull = co["k"].toString() == "null";
        if (isNull) {
            if (co["via"].toString() == "list") p.append({ HandlerPtr() });
            else if (build == 3) p << HandlerPtr();
            else p.append(HandlerPtr());
            return;
        }
        if (build == 0 || build == 1) p.append({ h });
        else if (build == 2) p.append(h);
        else p << h;
    }

    HandlerPtr resolve(const QJsonObject &co)
    {
        const QString k = co["k"].toString();
        if (k == "null") return HandlerPtr();
        if (k == "ref") return byId.at(co["to"].toInt());
        HandlerPtr h = make(co);
        byId[co["id"].toInt()] = h;
        return h;
    }

    // fluent construction with SimplePipeline (scoped children through pipeline()/end())
    void fluent(SimplePipeline &sp, const QJsonArray &children)
    {
        for (auto cv : children) {
            QJsonObject co = cv.toObject();
            const QString k = co["k"].toString();
            const int before = static_cast<const Pipeline &>(sp).handlers().size();
            bool viaFluent = true;
            if (k == "attr") {
                QVariantHash set;
                for (auto e : co["set"].toArray())
                    set.insert(e.toArray()[0].toString(), toVariant(e.toArray()[1]));
                sp.attrHandler([set](const LogMessage &) { return set; });
            } else if (k == "filter") {
                sp.filter(filterFn(co));
            } else if (k == "fmt") {
                QString variant = co["variant"].toString(), tag = co["tag"].toString();
                sp.format([variant, tag](const LogMessage &m) { return fmtOutput(variant, tag, m.formattedMessage(), m.attributes()); });
            } else if (k == "fn") {
                sp.handler(handlerFn(co));
            } else if (k == "seq") {
                sp.addSeqNumber(co["name"].toString());
            } else if (k == "dup") {
                sp.filterDuplicate();
            } else if (k == "pipe" && co["scoped"].toBool()) {
                SimplePipeline &child = sp.pipeline();
                fluent(child, co["children"].toArray());
                SimplePipeline &back = child.end();
                if (&back != &sp)
                    throw std::runtime_error("end() did not return the parent pipeline");
            } else {
                viaFluent = false;
                HandlerPtr h = resolve(co);
                add(sp, h, co, 2 + (co["id"].toInt() & 1));
            }
            if (viaFluent) {
                const auto &hs = static_cast<const Pipeline &>(sp).handlers();
                if (hs.size() != before + 1)
                    throw std::runtime_error("fluent call did not append exactly one handler");
                byId[co["id"].toInt()] = hs.last();
            }
        }
    }
};

// ------------------------------------------------------------------------------ reference
struct Model
{
    QString raw;
    QtMsgType type;
    QString formatted; // null = unformatted
    QVariantHash attrs;
    // state of shared stateful handlers, by node id
    std::map<int, int> seqCount;
    std::map<int, QString> dupLast;
    std::map<int, QJsonObject> nodeById;
    std::vector<Delivered> out;
    // non-triviality observations
    bool rejectWithRest = false, scopedRestoreChanged = false, sinkAfterScopedRestore = false;
    bool sharedStatefulUsedTwice = false, nullSkipped = false;
    std::map<int, int> uses;

    QString current() const { return formatted.isNull() ? raw : formatted; }

    // returns the handler's verdict
    bool runNode(const QJsonObject &n)
    {
        const QString k = n["k"].toString();
        if (k == "ref")
            return runNode(nodeById.at(n["to"].toInt()));
        const int id = n["id"].toInt();
        if (k == "attr") {
            for (auto e : n["set"].toArray())
                attrs.insert(e.toArray()[0].toString(), toVariant(e.toArray()[1]));
            return true;
        }
        if (k == "filter") {
            const QString p = n["p"].toString();
            const QJsonValue arg = n["arg"];
            if (p == "type") return type == kTypes[arg.toInt()];
            if (p == "prefix") return raw.startsWith(arg.toString());
            if (p == "hasattr") return attrs.contains(arg.toString());
            if (p == "fmtcontains") return current().contains(arg.toString());
            if (p == "isformatted") return !formatted.isNull();
            return arg.toBool();
        }
        if (k == "fmt") {
            formatted = fmtOutput(n["variant"].toString(), n["tag"].toString(), current(), attrs);
            return true;
        }
        if (k == "fn") {
            for (auto sv : n["prog"].toArray()) {
                QJsonArray s = sv.toArray();
                QString op = s[0].toString();
                if (op == "set") attrs.insert(s[1].toString(), toVariant(s[2]));
                else if (op == "rm") attrs.remove(s[1].toString());
                else if (op == "fmt") formatted = strFromJson(s[1]);
                else if (op == "unfmt") formatted = QString();
            }
            return n["ret"].toBool();
        }
        if (k == "sink") {
            out.push_back({ id, { current(), attrs, raw } });
            if (scopedRestoreChanged) sinkAfterScopedRestore = true;
            return true;
        }
        if (k == "seq") {
            if (++uses[id] >= 2) sharedStatefulUsedTwice = true;
            attrs.insert(n["name"].toString(), seqCount[id]++);
            return true;
        }
        if (k == "dup") {
            // "initially the empty text": a null and an empty QString compare equal
            QString &last = dupLast[id];
            if (raw == last) return false;
            last = raw;
            return true;
        }
        if (k == "pipe") {
            runList(n["children"].toArray(), n["scoped"].toBool());
            return true; // a nested pipeline never stops its parent
        }
        return true;
    }

    void runList(const QJsonArray &children, bool scoped)
    {
        const QString savedF = formatted;
        const QVariantHash savedA = attrs;
        for (int i = 0; i < children.size(); i++) {
            QJsonObject n = children[i].toObject();
            if (n["k"].toString() == "null") {
                if (n["via"].toString() == "list") nullSkipped = true;
                continue;
            }
            if (!runNode(n)) {
                for (int j = i + 1; j < children.size(); j++)
                    if (children[j].toObject()["k"].toString() != "null") rejectWithRest = true;
                break;
            }
        }
        if (scoped) {
            if (formatted != savedF || formatted.isNull() != savedF.isNull() || attrs != savedA)
                scopedRestoreChanged = true;
            formatted = savedF;
            attrs = savedA;
        }
    }

    void index(const QJsonArray &children)
    {
        for (auto cv : children) {
            QJsonObject n = cv.toObject();
            if (n.contains("id")) nodeById[n["id"].toInt()] = n;
            if (n["k"].toString() == "pipe") index(n["children"].toArray());
        }
    }
};

int depthOf(const QJsonArray &children)
{
    int d = 0;
    for (auto cv : children)
        if (cv.toObject()["k"].toString() == "pipe")
            d = std::max(d, 1 + depthOf(cv.toObject()["children"].toArray()));
    return d;
}
bool hasKind(const QJsonArray &children, const char *k)
{
    for (auto cv : children) {
        QJsonObject o = cv.toObject();
        if (o["k"].toString() == k) return true;
        if (o["k"].toString() == "pipe" && hasKind(o["children"].toArray(), k)) return true;
    }
    return false;
}

std::string show(const Delivered &d)
{
    return "sink#" + std::to_string(d.sinkId) + " text=" + (d.d.text.isNull() ? std::string("<null>") : "'" + d.d.text.toStdString() + "'")
            + " attrs={" + renderAttrs(d.d.attrs).toStdString() + "} raw='" + d.d.raw.toStdString() + "'";
}

std::string run(const QJsonObject &c)
{
    const QJsonArray rootChildren = c["root"].toArray();
    const bool simple = c["api"].toString() == "simple";
    const bool rootScoped = c["rootScoped"].toBool();

    Builder b;
    QSharedPointer<Pipeline> root;
    try {
        if (simple) {
            auto sp = QSharedPointer<SimplePipeline>::create(rootScoped);
            b.fluent(*sp, rootChildren);
            root = sp;
        } else {
            std::vector<std::pair<HandlerPtr, QJsonObject>> kids;
            for (auto cv : rootChildren) {
                QJsonObject co = cv.toObject();
                kids.push_back({ b.resolve(co), co });
            }
            root = b.assemble(kids, rootScoped, c["rootBuild"].toInt());
        }
    } catch (const std::exception &e) {
        return std::string("construction: ") + e.what();
    }

    Model model;
    model.index(rootChildren);
    std::vector<Delivered> real;
    g_real = &real;
    QByteArray catBuf("cat");
    int mi = 0;
    for (auto mv : c["messages"].toArray()) {
        QJsonObject mo = mv.toObject();
        mi++;
        QtMsgType t = kTypes[mo["type"].toInt()];
        QString text = strFromJson(mo["text"]);
        QMessageLogContext ctx("f.cpp", 7, "void f()", catBuf.constData());
        LogMessage lm(t, ctx, text);
        real.clear();
        bool verdict = root->process(lm);

        model.raw = text;
        model.type = t;
        model.formatted = QString();
        model.attrs.clear();
        model.out.clear();
        model.scopedRestoreChanged = false;
        model.runList(rootChildren, rootScoped);

        std::string where = "message #" + std::to_string(mi) + ": ";
        if (!verdict)
            return where + "root pipeline returned false (a pipeline must never stop its parent)";
        if (real.size() != model.out.size()) {
            std::string s = where + "sinks received " + std::to_string(real.size()) + " deliveries, in-order evaluation predicts " + std::to_string(model.out.size()) + "; real:";
            for (auto &d : real) s += "\n    " + show(d);
            s += "\n  expected:";
            for (auto &d : model.out) s += "\n    " + show(d);
            return s;
        }
        for (size_t i = 0; i < real.size(); i++) {
            if (real[i].sinkId != model.out[i].sinkId || !(real[i].d == model.out[i].d))
                return where + "delivery " + std::to_string(i) + " differs\n    real:     " + show(real[i]) + "\n    expected: " + show(model.out[i]);
        }
        // state after the root ran
        if (lm.isFormatted() != !model.formatted.isNull() || lm.formattedMessage() != model.current() || lm.attributes() != model.attrs)
            return where + "message state after the root pipeline: " + (lm.isFormatted() ? "formatted='" + lm.formattedMessage().toStdString() + "'" : std::string("unformatted")) + " attrs={"
                    + renderAttrs(lm.attributes()).toStdString() + "}, in-order evaluation predicts " + (!model.formatted.isNull() ? "formatted='" + model.current().toStdString() + "'" : std::string("unformatted")) + " attrs={"
                    + renderAttrs(model.attrs).toStdString() + "}";
    }
    g_real = nullptr;

    const int depth = 1 + depthOf(rootChildren);
    cls("api_simple", simple);
    cls("depth>=2", depth >= 2);
    cls("depth>=3", depth >= 3);
    cls("reject_with_handlers_after", model.rejectWithRest);
    cls("scoped_restore_changed_state", model.scopedRestoreChanged || model.sinkAfterScopedRestore);
    cls("sink_after_scoped_restore", model.sinkAfterScopedRestore);
    cls("shared_handler_ref", hasKind(rootChildren, "ref"));
    cls("shared_stateful_used_twice", model.sharedStatefulUsedTwice);
    cls("null_entry_kept_and_skipped", model.nullSkipped);
    cls("unformat_or_null_formatter", hasKind(rootChildren, "fn") || hasKind(rootChildren, "fmt"));
    noteCase(c, depth >= 2 && model.rejectWithRest && model.sinkAfterScopedRestore);
    return "";
}

} // namespace

int main()
{
    return harnessMain("C01 pipeline evaluation = sequential handler semantics", generate, run);
}
