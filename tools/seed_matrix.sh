#!/bin/bash
# usage: [SEED_FILTER=regex] [SEED_JOBS=n] tools/seed_matrix.sh [tier]   - runs every seeded change against the check of its own property (in parallel, on scratch copies)
# and records the outcome in seeded/<id>/meta.json (detected_by). Extra (seed, check) pairs can be listed in tools/seed_extra_pairs.txt.
TIER=${1:-quick}
cd /verif
( for d in seeded/*/; do s=$(basename $d); echo "$s" | grep -Eq -e "${SEED_FILTER:-.}" || continue; p=$(python3 -c "import json;print(json.load(open('$d/meta.json'))['property'])"); echo "$s $p $TIER"; done
  [ -f tools/seed_extra_pairs.txt ] && grep -v '^#' tools/seed_extra_pairs.txt | awk -v t=$TIER 'NF==2{print $1, $2, t}' | awk -v f="${SEED_FILTER:-.}" '$1 ~ f' ) | sort -u | xargs -P ${SEED_JOBS:-5} -L 1 tools/seed_run.sh 2>&1 | grep -v WARNING | sort > /dev/shm/seed_matrix.out
cat /dev/shm/seed_matrix.out
python3 - <<'PY'
import json, re, os, collections
det = collections.defaultdict(list); missed = collections.defaultdict(list)
for l in open('/dev/shm/seed_matrix.out'):
    m = re.match(r'^(\S+) (\S+) (\S+) exit=(\d+) violations=(\d+) :: (.*)$', l.strip())
    if not m: continue
    sid, chk, tier, ex, v, why = m.groups()
    (det if int(v) > 0 else missed)[sid].append(dict(check=chk, tier=tier, message=why[:300]))
for sid in sorted(set(det) | set(missed)):
    p = '/verif/seeded/%s/meta.json' % sid
    meta = json.load(open(p))
    meta['detected_by'] = det.get(sid, [])
    meta['not_detected_by'] = [x['check'] for x in missed.get(sid, [])]
    json.dump(meta, open(p, 'w'), indent=1)
print('seeds:', len(set(det)|set(missed)), 'detected by at least one check:', len(det), 'missed by all listed checks:', sorted(set(missed)-set(det)))
PY
