#!/bin/bash
# usage: tools/run_mutants.sh tools/mutants/<file>.txt [parallelism]   -> prints one line per (mutant, check)
F=$1; P=${2:-4}
grep -v '^#' "$F" | grep . | while IFS='|' read -r name file expr checks expect; do
  for c in $checks; do echo "$name|$file|$expr|$c|$expect"; done
done | xargs -P "$P" -d '\n' -I{} bash -c '
  IFS="|" read -r name file expr c expect <<< "{}"
  out=$(/verif/tools/mutant.sh -e "$expr" "$file" -- "$c" 2>&1)
  res=$(echo "$out" | grep -E "^exit=" | tail -1)
  v=$(echo "$out" | grep -c VIOLATION)
  note=$(echo "$out" | grep -E "falsified|CHECK-ERROR|BUILD-ERROR|DID NOT CHANGE" | head -1 | cut -c1-200)
  echo "$name $c expect=$expect $res violations=$v :: $note"
'
