#!/bin/bash
# usage: tools/seed_run.sh <seed-id> <check-id> [tier]      (VERIF_SEED honoured)
# Applies /verif/seeded/<seed-id>/patch.diff (after baseline_fix.diff when present and not yet in the tree) to a scratch COPY
# of /repo, runs the check against the copy (VERIF_REPO) and removes the copy. /repo itself is never touched.
set -u
SID=$1; CHK=$2; TIER=${3:-quick}
S=/verif/seeded/$SID
D=$(mktemp -d /dev/shm/seed-XXXXXX)
trap 'rm -rf "$D"' EXIT
rsync -a --exclude _build --exclude .git /repo/ "$D/"
cd "$D"
if [ -f "$S/baseline_fix.diff" ] && patch -p1 --dry-run -s < "$S/baseline_fix.diff" >/dev/null 2>&1; then patch -p1 -s < "$S/baseline_fix.diff"; fi
patch -p1 -s < "$S/patch.diff" || { echo "$SID $CHK: PATCH-DOES-NOT-APPLY"; exit 3; }
cd /verif
out=$(VERIF_REPO="$D" ./check "$CHK" "$TIER" 2>&1); rc=$?
v=$(echo "$out" | grep -c "^VIOLATION")
why=$(echo "$out" | grep -E "^\[$CHK\] |falsified|CHECK-ERROR|BUILD-ERROR" | head -2 | cut -c1-300 | tr '\n' ' ')
echo "$SID $CHK $TIER exit=$rc violations=$v :: $why"
