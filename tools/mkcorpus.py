#!/usr/bin/env python3
"""Writes the committed seed corpora under /verif/corpus/<target>/ (run at design time, not by the checks).
Patterns / signatures / rule strings are lifted from the repository's tests and docs plus a hand-made list."""
import hashlib, os, re, sys, struct

V = os.path.dirname(os.path.dirname(os.path.abspath(__file__)))
REPO = "/repo"

def lits(paths, pred):
    out = set()
    for p in paths:
        try:
            t = open(p, errors="replace").read()
        except OSError:
            continue
        for m in re.finditer(r'"((?:[^"\\\n]|\\.)*)"', t):
            s = m.group(1)
            if pred(s):
                try:
                    out.add(bytes(s, "utf-8").decode("unicode_escape").encode("latin-1", "replace"))
                except Exception:
                    out.add(s.encode())
    return sorted(out)

def files(sub, exts):
    r = []
    for d, _, fs in os.walk(os.path.join(REPO, sub)):
        if "_build" in d: continue
        for f in fs:
            if f.endswith(exts): r.append(os.path.join(d, f))
    return sorted(r)

def put(target, data):
    d = os.path.join(V, "corpus", target)
    os.makedirs(d, exist_ok=True)
    open(os.path.join(d, hashlib.sha1(data).hexdigest()[:16]), "wb").write(data)

src = files("tests", (".cpp", ".h")) + files("docs", (".md",)) + files("src", (".h", ".cpp")) + [os.path.join(REPO, "README.md")]
patterns = lits(src, lambda s: "%{" in s)
# tail consumed from the end by FuzzedDataProvider (see harness/fuzz_targets.cpp): all chunk sizes 0, not-null context, type info
def tail_pattern(type_idx=1, nattr=0):
    # reading backwards: typeIdx, mode, line(4), nullFile, nullFunc, nullCat, nattr, file size(2), func size(2), cat size(1), msg size(2)
    fwd = bytes([type_idx, 0]) + struct.pack("<i", 42) + bytes([1, 1, 1, nattr]) + bytes(2) + bytes(2) + bytes(1) + bytes(2)
    return fwd[::-1]
# hand-made: optional attributes with unusual counts (negative, huge, signs), specs at the edges
patterns += [b"%{nope?,-40}tail", b"%{a?-3,-2}xyz%{message}", b"[%{u?1,1}] %{message}", b"%{u?99999,99999}x", b"%{u?,+2}ab", b"%{u?-1}ab", b"%{u? 1, 1}ab",
             b"%{message:*^10!}", b"%{message:>3!}", b"%{type:^8}|%{category:<<4!}", b"%{if-warning}W%{endif}%{u?,3}%{if-debug}D%{endif}lit", b"%{u?,2}%{v?,2}%{message}"]
for i, p in enumerate(patterns):
    put("pattern", p + tail_pattern(i % 5))
    put("patdiff", bytes(8))
sigs = [b"void f()", b"int main(int, char**)", b"void ns::Class::method(const QString&) const", b"auto ns::Class::method()::<lambda(int)>",
        b"QtLogger::Logger* QtLogger::Logger::instance()", b"bool operator==(const A&, const B&)", b"void (*get())(int)", b"T ns::tmpl<T>::f(U) [with T = int; U = std::map<int, std::pair<int,int> >]",
        b"virtual void A::B<C<D> >::operator()(int) const &&", b"main()::{lambda()#1}::operator()() const", b"static void A::b() noexcept", b"operator new[](unsigned long)",
        b"void __cdecl ns::f(void)", b"int (anonymous namespace)::helper(int)", b"decltype(auto) f() -> int", b"()::", b"(((", b")))", b"a::()::b", b"operator()", b"operator<<", b"std::function<void ()> g(int (*)(char))",
        b"expression for onClicked", b"qml: anonymous", b"file:///x.qml:12 onCompleted", b"", b"<", b">", b"[", b"]",
        b"<lambda>", b"<lambda_1>::operator()", b"auto <lambda_1>::operator ()(void) const", b"x <lambda#2>::run", b"void Holder<main()::<lambda()> >::run()",
        b"static T Registry<Plugin::instance()::Tag>::get(int)", b"<>", b"<<>>::a", b"a<b>::<lambda()>::c<d>", b"operator()::()::x"]
for s in sigs + lits(files("tests", (".cpp",)), lambda s: "::" in s and "(" in s):
    # func target: integrals from the end: typeIdx, mode, line(4), nullFile, nullFunc, nullCat, nattr, spec size(1)
    put("func", s + (bytes([1, 0]) + struct.pack("<i", 1) + bytes([1, 1, 1, 0, 0]))[::-1])
rules = lits(src, lambda s: ("=true" in s or "=false" in s) and "%{" not in s)
for r in rules:
    # catfilter: mode, rules size(2) from the end; front: rules bytes then category
    n = min(len(r), 256)
    put("catfilter", r[:n] + b"app.network" + (bytes([0]) + struct.pack("<H", n))[::-1])
for m in [b"error: something", b"start of it", b"the end", b"call 555-1234 now", b"password=1", b"WARNING", b"a word here", b"", b"aaaaaaaaaaaaaaaaaaaaaaaaaaaaaaab", b"\xe4\xb8\xad\xe6\x96\x87", b"secret token"]:
    for idx in range(0, 18, 3):
        put("regexp", m + bytes([0, 0, idx])[::-1][::-1])
for m in [b"hello", b'quote " backslash \\ slash /', b"line1\nline2\r\n", b"\x00\x01\x1f\x7f", b"\xf0\x9f\x98\x80 astral", b"\xed\xa0\x80 lone", b"x" * 120, b"\xe2\x80\xa8\xe2\x80\xa9"]:
    put("formatters", m + bytes(24))
put("catdiff", bytes(16))
# libFuzzer dictionaries: tokens of the pattern language / of C++ signatures, so that mutations splice meaningful pieces
open(os.path.join(V, "corpus", "pattern.dict"), "w").write("\n".join('"%s"' % t for t in [
    "%{", "}", "%{message}", "%{type}", "%{category}", "%{file}", "%{function}", "%{func}", "%{line}", "%{shortfile", "%{time", "%{if-debug}", "%{if-warning}", "%{endif}",
    "?", "?,", "?1,1", "?,-", "-", ":", ":<", ":>", ":^", "!", "*^10!", "%%", "?-1,-1", "?,-40", "99999", "process}", "boot}"]) + "\n")
open(os.path.join(V, "corpus", "func.dict"), "w").write("\n".join('"%s"' % t for t in [
    "<lambda", "<lambda>", "<lambda_1>", ">", "<", "::", "operator()", "operator", "(", ")", "()::", "[with ", "]", " const", "&&", "__cdecl ", "(anonymous namespace)::", "{lambda()#1}", "auto ", "static ", "virtual ", "->", "decltype("]) + "\n")
print({t: len(os.listdir(os.path.join(V, "corpus", t))) for t in sorted(os.listdir(os.path.join(V, "corpus"))) if os.path.isdir(os.path.join(V, "corpus", t))})
