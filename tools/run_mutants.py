#!/usr/bin/env python3
"""Sensitivity catalogue runner.   usage: tools/run_mutants.py tools/mutants/catalogue.json [-j N] [-k name-substring] [--tier quick]

catalogue.json: [ {"name":..., "edits":[{"file":..., "old":..., "new":...}, ...], "checks":[ids], "expect":"caught"|"equivalent"|{"C05":"caught",...}, "note":...} ]
Every mutant is applied (literal, exactly-once replacement) to a scratch COPY of /repo, the single header is regenerated there,
the listed checks are run against the copy (VERIF_REPO) and the copy is removed. /repo is never touched. Prints one line per
(mutant, check) and a summary; exit status 1 when an outcome differs from "expect".
"""
import concurrent.futures as cf, json, os, shutil, subprocess, sys, tempfile

V = os.path.dirname(os.path.dirname(os.path.abspath(__file__)))


def run_one(m, chk, tier):
    d = tempfile.mkdtemp(prefix="mut-", dir="/dev/shm")
    try:
        subprocess.run(["rsync", "-a", "--exclude", "_build", "--exclude", ".git", "/repo/", d + "/"], check=True)
        for e in m["edits"]:
            p = os.path.join(d, e["file"])
            s = open(p).read()
            if s.count(e["old"]) != 1:
                return (m["name"], chk, "EDIT-DOES-NOT-APPLY (%d matches in %s)" % (s.count(e["old"]), e["file"]), "")
            open(p, "w").write(s.replace(e["old"], e["new"]))
        if not m.get("keep_header"):
            subprocess.run([sys.executable, "tools/gen_qtlogger.h.py"], cwd=d, stdout=subprocess.DEVNULL, stderr=subprocess.DEVNULL)
        env = dict(os.environ, VERIF_REPO=d)
        r = subprocess.run([os.path.join(V, "check"), chk, tier], env=env, stdout=subprocess.PIPE, stderr=subprocess.STDOUT, text=True, cwd=V)
        out = r.stdout
        if "BUILD-ERROR" in out:
            res = "BUILD-ERROR"
        elif "VIOLATION" in out:
            res = "caught"
        elif r.returncode == 0:
            res = "not caught"
        else:
            res = "CHECK-ERROR"
        why = ""
        for l in out.splitlines():
            if l.startswith("[%s] " % chk) and ("falsified" in l or "sanitizer" in l or " on target " in l or "regression" in l):
                why = l[:260]
                break
        return (m["name"], chk, res, why)
    finally:
        shutil.rmtree(d, ignore_errors=True)


def main():
    args = sys.argv[1:]
    cat = json.load(open(args[0]))
    jobs = int(args[args.index("-j") + 1]) if "-j" in args else 4
    only = args[args.index("-k") + 1] if "-k" in args else ""
    tier = args[args.index("--tier") + 1] if "--tier" in args else "quick"
    work = [(m, c) for m in cat if only in m["name"] for c in m["checks"]]
    bad = 0
    with cf.ThreadPoolExecutor(max_workers=jobs) as ex:
        for name, chk, res, why in ex.map(lambda mc: run_one(mc[0], mc[1], tier), work):
            m = next(x for x in cat if x["name"] == name)
            exp = m["expect"][chk] if isinstance(m["expect"], dict) else m["expect"]
            ok = (res == "caught") == (exp == "caught") and res in ("caught", "not caught")
            bad += not ok
            print("%-34s %-4s %-11s expect=%-10s %s %s" % (name, chk, res, exp, "" if ok else "<<< UNEXPECTED", why), flush=True)
    print("%d (mutant, check) pairs, %d unexpected" % (len(work), bad))
    return 1 if bad else 0


if __name__ == "__main__":
    sys.exit(main())
