#!/bin/sh
# Builds the repository's own test suite (guard off: there are no source hooks) and runs it
# the way /root/.vp/BASELINE.json does. sentry_example fails to link at the pinned commit
# (needs QTLOGGER_NETWORK) - hence -k 0 and the build status is ignored; ctest decides.
set -u
B=${1:-/repo/_build}
[ -f "$B/build.ninja" ] || cmake -G Ninja -S /repo -B "$B" >/dev/null
cmake --build "$B" -- -k 0 >/dev/null 2>&1
exec ctest --test-dir "$B" -j8 --timeout 900
