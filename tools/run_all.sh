#!/bin/bash
# usage: tools/run_all.sh [tier] [parallelism]  - runs every registered check on /repo, prints one status line each, validates evidence
TIER=${1:-quick}; P=${2:-4}
cd /verif
ids=$(python3 -c "import json; print(' '.join(c['property_id'] for c in json.load(open('MANIFEST.json'))['checks']))")
mkdir -p /dev/shm/runall
echo $ids | tr ' ' '\n' | xargs -P $P -I{} bash -c 's=$(date +%s); ./check {} '$TIER' > /dev/shm/runall/{}.log 2>&1; rc=$?; e=$(date +%s); echo "{} exit=$rc $((e-s))s $(grep -c ^VIOLATION /dev/shm/runall/{}.log) violations, $(grep -c ^KNOWN-FINDING /dev/shm/runall/{}.log) known; $(grep -E "evaluations=|executions=" /dev/shm/runall/{}.log | tail -1)"' | sort
python3-vt - <<'PY'
import json, jsonschema, glob
sch = json.load(open('/root/.vp/EVIDENCE.schema.json'))
bad = 0
for c in json.load(open('/verif/MANIFEST.json'))['checks']:
    p = c['evidence_file']
    try:
        e = json.load(open(p)); jsonschema.validate(e, sch)
        cov = e['coverage']
        if cov.get('evaluations', 0) < 1 or cov.get('distinct_nontrivial', 0) < 2 or not cov.get('samples'):
            print('WEAK', p, cov.get('evaluations'), cov.get('distinct_nontrivial')); bad += 1
    except Exception as ex:
        print('INVALID', p, str(ex)[:200]); bad += 1
print('evidence files checked, problems:', bad)
PY
