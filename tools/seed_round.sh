#!/bin/bash
# usage: tools/seed_round.sh <property> <worktree> <letters...>   e.g. tools/seed_round.sh C15 /tmp/wt4-C15 G H
# Confirms each delivered change in its scratch worktree (tools/seed_confirm.sh), keeps it under seeded/<prop>-<letter>/ and runs the
# quick tier of the property's check against a scratch copy with the change (tools/seed_run.sh). One summary line per step.
P=$1; WT=$2; shift 2
cd /verif
for X in "$@"; do
  [ -f "$WT/mutants/$X/patch.diff" ] || { echo "$P-$X: no patch delivered"; continue; }
  tools/seed_confirm.sh "$WT" "$X" "$P-$X" "$P" 2>&1 | grep -v "WARNING conda" | tail -2
  [ -d "seeded/$P-$X" ] && tools/seed_run.sh "$P-$X" "$P" quick 2>&1 | grep -v "WARNING conda" | tail -1 | cut -c1-600
done
