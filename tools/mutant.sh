#!/bin/bash
# usage: tools/mutant.sh <patchfile|-e 'sed-expr' file> -- <ID> [tier]
# Copies /repo to a scratch dir, applies the change, runs the check against it (VERIF_REPO), cleans up.
set -u
D=$(mktemp -d /dev/shm/mutant-XXXXXX)
trap 'rm -rf "$D"' EXIT
rsync -a --exclude _build --exclude .git /repo/ "$D/"
if [ "$1" = "-e" ]; then
  sed -i -E "$2" "$D/$3" || exit 3
  if diff -q "$D/$3" "/repo/$3" >/dev/null; then echo "MUTATION DID NOT CHANGE ANYTHING"; exit 3; fi
  shift 3
else
  (cd "$D" && patch -p1 -s < "$1") || exit 3
  shift 1
fi
[ "$1" = "--" ] && shift
ID=$1; TIER=${2:-quick}
cd /verif
VERIF_REPO="$D" ./check "$ID" "$TIER" 2>&1 | grep -E "VIOLATION|KNOWN|CHECK-ERROR|BUILD-ERROR|evaluations=|falsified|\[C[0-9]+\]" | cut -c1-400
echo "exit=${PIPESTATUS[0]}"
