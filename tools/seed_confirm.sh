#!/bin/bash
# usage: tools/seed_confirm.sh <worktree> <A|B> <seed-id> <property> [baseline.diff]
# Confirms a seeded change in its scratch worktree (never in /repo):
#   clean tree (+ optional baseline diff): demo passes; with patch: builds, ctest 100%, demo fails.
# On success copies patch.diff, demo files, notes.md into /verif/seeded/<seed-id>/ and writes meta.json (needs, ran).
set -u
WT=$1; X=$2; ID=$3; PROP=$4; BASE=${5:-}
M=$WT/mutants/$X
OUT=/verif/seeded/$ID
cd "$WT" || exit 3
git checkout -q -- . 2>/dev/null
[ -n "$BASE" ] && { git apply "$BASE" || { echo "$ID: baseline does not apply"; exit 3; }; }
rundemo() { # builds and runs the demo against the worktree, echoes PASS/FAIL(rc)
  rm -rf "$M"/demo "$M"/demo_* "$M"/out 2>/dev/null
  (cd "$M" && { bash ./build.sh "$WT" "$M/out" >/dev/null 2>"$M/build.err" || bash ./build.sh "$WT" >/dev/null 2>"$M/build.err"; }) || { echo "BUILDFAIL"; return; }
  exe=$(find "$M" -maxdepth 2 -type f -perm -u+x ! -name '*.sh' ! -name '*.py' ! -name '*.o' | grep -E "/(demo[^/]*|[^/]*demo)$" | head -1)
  [ -z "$exe" ] && { echo "NOEXE"; return; }
  (cd "$M" && timeout 300 "$exe" >"$M/demo.out" 2>&1); rc=$?
  rm -f "$exe"; rm -rf "$M/out"
  [ $rc -eq 0 ] && echo PASS || echo "FAIL($rc)"
}
clean=$(rundemo)
if ! git apply --check "$M/patch.diff" 2>/dev/null; then
  if patch -p1 --dry-run -s < "$M/patch.diff" >/dev/null 2>&1; then APPLY="patch -p1 -s"; else echo "$ID: patch does not apply"; git checkout -q -- .; exit 3; fi
else APPLY="git apply"; fi
if [ "$APPLY" = "git apply" ]; then git apply "$M/patch.diff"; else patch -p1 -s < "$M/patch.diff"; fi
[ -f _build/build.ninja ] || cmake -G Ninja -S . -B _build >/dev/null
cmake --build _build -- -k 0 >/dev/null 2>&1
ct=$(ctest --test-dir _build -j8 --timeout 900 2>&1 | grep -E "tests passed|tests failed" | tail -1)
cp qtlogger.h /tmp/seedhdr.$$; python3 tools/gen_qtlogger.h.py >/dev/null 2>&1
cmp -s qtlogger.h /tmp/seedhdr.$$ && hdr="header-in-sync" || hdr="header-NOT-regenerated-by-patch"
cp /tmp/seedhdr.$$ qtlogger.h; rm -f /tmp/seedhdr.$$
mut=$(rundemo)
git checkout -q -- .
git clean -fdq -e mutants -e _build -e scratch >/dev/null 2>&1
echo "$ID prop=$PROP clean_demo=$clean mutant_demo=$mut ctest='$ct' $hdr"
case "$clean/$mut/$ct" in
  PASS/FAIL*/100%*)
    mkdir -p "$OUT"
    cp "$M/patch.diff" "$OUT/patch.diff"
    for f in demo.cpp build.sh notes.md; do [ -f "$M/$f" ] && cp "$M/$f" "$OUT/$f"; done
    for f in "$M"/*.cpp "$M"/*.h "$M"/*.py "$M"/*.ini; do [ -f "$f" ] && cp "$f" "$OUT/"; done
    [ -n "$BASE" ] && cp "$BASE" "$OUT/baseline_fix.diff"
    python3 - "$OUT" "$ID" "$PROP" "$clean" "$mut" "$ct" "$hdr" <<'EOF'
import json, sys, os, re
out, sid, prop, clean, mut, ct, hdr = sys.argv[1:8]
notes = open(os.path.join(out, "notes.md"), errors="replace").read() if os.path.exists(os.path.join(out, "notes.md")) else ""
meta = dict(seed_id=sid, property=prop, source="independent sub-agent given only the property text and a scratch worktree",
            needs_to_manifest="see notes.md", confirmed=dict(demo_on_clean_tree=clean, demo_with_change=mut, existing_tests_with_change=ct, single_header=hdr),
            ran=["git apply patch.diff (scratch worktree)", "cmake --build _build -- -k 0; ctest --test-dir _build -j8", "bash build.sh <worktree> && ./demo (clean tree and changed tree)"],
            detected_by=[], notes_head=notes[:1200])
json.dump(meta, open(os.path.join(out, "meta.json"), "w"), indent=1)
EOF
    echo "$ID: KEPT -> $OUT";;
  *) echo "$ID: NOT CONFIRMED";;
esac
