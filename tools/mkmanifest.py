#!/usr/bin/env python3
"""Regenerates /verif/MANIFEST.json from py/vprops.py (single source of truth) and validates it."""
import json, os, sys

V = os.path.dirname(os.path.dirname(os.path.abspath(__file__)))
sys.path.insert(0, os.path.join(V, "py"))
from vprops import PROPS, MANIFEST_META  # noqa

ids = [json.loads(l)["id"] for l in open(os.path.join(V, "properties.jsonl")) if l.strip()]
checks, na = [], []
for pid in ids:
    s = PROPS.get(pid)
    if s and not s.get("unclaimed"):
        checks.append(
            dict(
                property_id=pid,
                quick_cmd="./check %s quick" % pid,
                thorough_cmd="./check %s thorough" % pid,
                evidence_file="/verif/evidence/%s.json" % pid,
                replay_cmd_template="./check %s quick --replay {path}" % pid,
                engine=s.get("engine", "rc"),
                level_claimed=dict(category=s.get("level", "exploration"), text=s["level_text"], design_ref=s.get("design_ref", "DESIGN.md section 3, " + pid)),
                level_note=s["level_note"],
                technique=s["technique"],
            )
        )
    else:
        na.append(dict(property_id=pid, reason=(s or {}).get("unclaimed") or MANIFEST_META["pending_reason"]))
m = dict(
    version=1,
    setup_cmd="./check --setup",
    hooks=MANIFEST_META["hooks"],
    engines=MANIFEST_META["engines"],
    checks=checks,
    notes=MANIFEST_META["notes"],
    not_applicable=na,
)
out = os.path.join(V, "MANIFEST.json")
json.dump(m, open(out, "w"), indent=1)
try:
    import jsonschema
    jsonschema.validate(m, json.load(open("/root/.vp/MANIFEST.schema.json")))
    print("MANIFEST.json valid: %d checks, %d not_applicable" % (len(checks), len(na)))
except ImportError:
    print("written (jsonschema not importable here; run with python3-vt to validate)")
